#!/usr/bin/env python3
"""Regenerates MANIFEST.json (kept in one place so it is always schema-valid)."""
import json, os
HERE = os.path.dirname(os.path.abspath(__file__))
NA = {
 "C01":"Pure function of one call's arguments (vector/module records, enzyme geometry, rotation, argument order): no schedule, clock, I/O, fault or cross-call state for a simulator to own; deciding it is input enumeration, not simulation.",
 "C02":"Relation between two pure evaluations (record vs. rotated record); no history, fault or I/O involved.",
 "C03":"Verdict is a function of the overhang multiset of one call; permutations are inputs; no hash-order or schedule dependence exists.",
 "C04":"Reported overhangs/targets vs. cut positions of one accepted record: pure per class x record.",
 "C05":"Part pattern <=> generic pattern + signature is an input-space equivalence; history independence of characterize is exercised under C06.",
 "C08":"Feature transport through rotate-slice-concatenate within one call: pure coordinate arithmetic.",
 "C09":"Provenance annotations of one product and a Biopython in-memory GenBank round trip; no moclo I/O code to inject faults into.",
 "C11":"Relation between a vector literal and the next level's pattern over all inserts: inputs x kit classes, pure.",
 "C12":"Metamorphic relation (reverse complement) between two pure evaluations.",
 "C13":"Algebra of an immutable value under >>/<<; compositions of rotations are expressions over inputs, not histories of a stateful object.",
 "C14":"As C13 for reverse_complement: pure.",
 "C15":"Membership, +, slicing and constructor checks are pure; copy-on-wrap is decided by one constructor call.",
 "C16":"Regex semantics over patterns x targets x ranges: pure, exhaustively enumerable (model-checking/enumeration territory).",
 "C17":"Totality over arbitrary strings is a statement about inputs (fuzzing), no schedule/fault/history.",
 "C18":"Case-insensitivity: relation between pure evaluations on case-transformed inputs.",
 "C19":"Relation between two assemblies differing in one argument: pure.",
}
CHECKS = {
 "C06": dict(engine="typing-world", category="exploration", design_ref="DESIGN.md 3.1",
   technique="deterministic simulation: seeded multi-client call histories over process-global class state, each answer compared with the same query issued first in a pristine fork",
   text="Seeded search over call histories (1-3 interleaved clients, 12-60 operations: instantiate / is_valid / overhangs / target / placeholder / characterize / structure / class definitions at run time (same-name, cross-role, sub-classes of concrete parts incl. ones re-targeted to another cutter) / registry loading and assemblies as priming / handles dropped and record objects re-created) over kit, generic and run-defined classes and real kit plasmids incl. rotated, synthetic, illegal-site and linear-twin records; every observing call is compared with the same call made FIRST in a process forked from a never-used template, and a sample of oracle answers with really fresh interpreters. Quick: 1200 random histories + 400 pair-prefixed ones; thorough: 36000 random + every ordered pair of kit classes as a forced prefix. Sampling, not proof: the right level for a property quantified over unbounded histories whose only carrier is process-global state.",
   note="Trusts: fork of the pristine template == fresh interpreter (cross-checked against fresh interpreters on a sample every run); Biopython/property_cached as shipped; operations are atomic (library is synchronous). Oracle is the same code without history, so a class that is wrong with and without history alike is not flagged (that is C04/C05)."),
 "C07": dict(engine="assembly-world", category="fault_enumeration", design_ref="DESIGN.md 3.2",
   technique="deterministic simulation with fault injection: seeded assemble() histories over shared record objects, exceptions injected at every enumerated crash point (element-call boundaries, interior source lines), snapshot-purity and fresh-process refinement oracles",
   text="For sampled scenarios the set of call-boundary crash points of an assemble call (every call the manager makes into its elements x before/after) is measured by a dry run and enumerated completely, interior line-level crash points inside fragment extraction are enumerated (thorough) or strided (quick); random multi-client histories add natural failures at every chain position (incl. UnusedModules raised as an error), repeated instances, records sharing an id, caller edits/repairs (sequence, annotations, citations in place), direct calls on shared wrappers, retries, real CIDAR/YTK assemblies and two-level assemblies whose kept products join the shared pool. After EVERY operation every record of the shared pool is compared with its snapshot, and every un-faulted call is compared with the same call executed first in a pristine process on fresh copies. Scenarios are sampled (seeded), crash points per scenario are enumerated: fault_enumeration.",
   note="Crash points are Exception subclasses raised at element-call boundaries or moclo source lines inside target_sequence; exceptions inside the restoring code itself and BaseException-only signals are outside the quantifier. Purity is by value over a canonical deep snapshot (absent reference list == empty). Operations are atomic."),
 "C10": dict(engine="assembly-world", category="exploration", design_ref="DESIGN.md 3.3",
   technique="deterministic simulation: same seeded assemble() histories (consecutive calls, calls after failed and fault-injected calls), citation oracle by index arithmetic over the generated catalogue plus citation-free reference execution in a pristine process",
   text="Every product returned in the simulated histories is checked by an oracle computed from the generated catalogue only: bracketed in-range indices, each inherited feature (traced by a unique note tag) cites exactly the references its source cited, each cited reference listed once, product equal to the citation-free assembly, inputs' citation data unchanged. Seeded sampling of pools (0-5 references, shared by object or by content, same title / same paper told apart by span or remark, a reference listed twice, different positions in different records) and histories (incl. products re-used at the next level): exploration.",
   note="Generator restrictions keep the check inside the statement: well-formed in-range citations, no record lists two references equal by content, citation lists not aliased. References are told apart by title."),
 "C20": dict(engine="registry-world", category="exploration", design_ref="DESIGN.md 3.4",
   technique="deterministic simulation with fault injection: real registry classes over a simulated store (seeded listing permutations, short reads, injected I/O errors at scandir/getinfo/openbin/read offsets) and seeded combination histories, checked operation by operation against a dictionary model; exhaustive sweep of the five embedded registries",
   text="Seeded search over directory contents, registry combinations and lookup keys, with the storage medium under simulator control; fault-free and fault-injecting batches are separate; after any injected I/O error every later operation must be exact again; a share of the fault-free runs reads real directories through OSFS. All 362 items of the five embedded archives (built by the repo's own build_ext) are looked up in every run of the check. Sampling of configurations and fault placements: exploration.",
   note="Storage medium is a stub (MemoryFS primitives / in-memory archive bytes below real BufferedReader, tarfile, gzip, GenBank parser, FS.filterdir/open). Inputs stay inside the precondition (typed plasmids, distinct stems, case-sensitive store, hashable keys). Resistance judged against the kits' label convention."),
}
def main():
    checks = []
    for pid, c in CHECKS.items():
        checks.append({
            "property_id": pid,
            "quick_cmd": "./check %s --tier quick" % pid,
            "thorough_cmd": "./check %s --tier thorough" % pid,
            "evidence_file": "/verif/evidence/%s.json" % pid,
            "replay_cmd_template": "./check %s --replay {path}" % pid,
            "engine": c["engine"],
            "level_claimed": {"category": c["category"], "text": c["text"], "design_ref": c["design_ref"]},
            "level_note": c["note"],
            "technique": c["technique"],
        })
    m = {
     "version": 1,
     "setup_cmd": "/venv/bin/python -c \"import Bio, fs, property_cached, six, pkg_resources\"",
     "hooks": {"guard": "MOCLO_VERIF", "enable": "no hook is needed: every seam used (fs.open_fs pass-through of FS instances, pkg_resources.resource_stream looked up at call time, overridable element methods, sys.settrace) already exists; each check copies /repo's working tree to a scratch directory, builds the kit archives with the kits' own setup.py and imports moclo from there", "baseline_off_cmd": "cd /repo && /venv/bin/python -m pytest -ra -q -p no:cacheprovider --timeout=900 --continue-on-collection-errors", "source_commits": [], "add_only": True},
     "engines": [
       {"name": "typing-world", "path": "sim/worlds/typing.py", "serves_properties": ["C06"], "kind_free_text": "deterministic simulation of multi-client call histories over process-global class state; pristine-fork oracle"},
       {"name": "assembly-world", "path": "sim/worlds/assembly.py", "serves_properties": ["C07", "C10"], "kind_free_text": "deterministic simulation of assemble() histories over a shared record pool with exception injection at enumerated crash points"},
       {"name": "registry-world", "path": "sim/worlds/registry.py", "serves_properties": ["C20"], "kind_free_text": "real registries over a simulated store (permuted listings, short reads, injected I/O errors) and combination histories vs. a dictionary model"},
     ],
     "checks": checks,
     "notes": "Technique: deterministic simulation with fault injection (see DESIGN.md). Exit 2 + 'HARNESS-ERROR' means the harness itself failed; it is never a pass and never a violation. Genuine defects repaired in /repo are listed in known_findings.json under 'fixed'.",
     "not_applicable": [{"property_id": k, "reason": v} for k, v in NA.items() if k not in CHECKS],
    }
    m["engines"] = [e for e in m["engines"] if any(p in CHECKS for p in e["serves_properties"])]
    with open(os.path.join(HERE, "MANIFEST.json"), "w") as fh:
        json.dump(m, fh, indent=1)
        fh.write("\n")
if __name__ == "__main__":
    main()
