# coding: utf-8
"""Simulator kernel: seeds, streams, event log, fork runner, worker pool,
delta-debugging minimiser, known findings, evidence writer.

Rules kept here (DESIGN.md section 2):
  * one integer (VERIF_SEED) decides everything; sub-streams are derived with
    sha256 so that adding a draw in one stream never shifts another;
  * choices made *while* an operation executes are derived statelessly from
    (run seed, operation id, seam, occurrence);
  * logging never draws from a PRNG and never reads a clock;
  * every run and every oracle query executes in a fresh fork of a pristine
    template process;
  * a timeout / crash of the harness is HARNESS-ERROR (exit 2), never a pass
    and never a VIOLATION.
"""
from __future__ import annotations

import collections
import faulthandler
import hashlib
import json
import os
import pickle
import random
import select
import signal
import sys
import time
import traceback

VERIF = os.path.dirname(os.path.dirname(os.path.abspath(__file__)))


class HarnessError(Exception):
    pass


# --------------------------------------------------------------------------
# seeds and streams


def h64(*parts):
    s = ":".join(str(p) for p in parts).encode("utf8")
    return int.from_bytes(hashlib.sha256(s).digest()[:8], "big")


def run_seed(verif_seed, prop, tier, index):
    return h64(verif_seed, prop, tier, index)


def stream(seed, name):
    return random.Random(h64(seed, "stream", name))


def stateless(seed, opid, seam, occurrence):
    """A 64-bit value for a choice made while operation `opid` executes."""
    return h64(seed, "op", opid, seam, occurrence)


# --------------------------------------------------------------------------
# canonical JSON + event log


def canon(obj):
    return json.dumps(obj, sort_keys=True, separators=(",", ":"), ensure_ascii=True, default=_default)


def _default(o):
    if isinstance(o, (set, frozenset)):
        return sorted(o)
    if isinstance(o, bytes):
        return o.hex()
    if isinstance(o, tuple):
        return list(o)
    return repr(o)


def digest_of(obj):
    return hashlib.sha256(canon(obj).encode()).hexdigest()


class EventLog(object):
    def __init__(self, keep=True):
        self._h = hashlib.sha256()
        self.events = [] if keep else None
        self.n = 0

    def append(self, event):
        self._h.update(canon(event).encode())
        self._h.update(b"\n")
        self.n += 1
        if self.events is not None:
            self.events.append(event)

    def digest(self):
        return self._h.hexdigest()


# --------------------------------------------------------------------------
# fork runner


def fork_call(fn, args=(), timeout=30.0, what="child"):
    """Run fn(*args) in a forked child; return its (picklable) result.

    The child leaves through os._exit so no atexit handler of the template
    runs.  Timeout / abnormal exit / unpicklable result -> HarnessError.
    """
    r, w = os.pipe()
    sys.stdout.flush()
    sys.stderr.flush()
    pid = os.fork()
    if pid == 0:
        code = 0
        try:
            os.close(r)
            signal.signal(signal.SIGALRM, signal.SIG_DFL)
            faulthandler.dump_traceback_later(max(1.0, timeout - 0.5), exit=False)
            signal.alarm(int(timeout) + 2)
            try:
                payload = ("ok", fn(*args))
            except BaseException as exc:  # the harness itself failed
                payload = ("err", "%s: %s\n%s" % (type(exc).__name__, exc, traceback.format_exc()))
            data = pickle.dumps(payload, protocol=pickle.HIGHEST_PROTOCOL)
            with os.fdopen(w, "wb") as fh:
                fh.write(data)
        except BaseException:
            code = 3
        finally:
            os._exit(code)
    os.close(w)
    chunks = []
    deadline = time.monotonic() + timeout
    try:
        while True:
            left = deadline - time.monotonic()
            if left <= 0:
                os.kill(pid, signal.SIGKILL)
                os.waitpid(pid, 0)
                raise HarnessError("%s timed out after %.0fs" % (what, timeout))
            ready, _, _ = select.select([r], [], [], min(left, 1.0))
            if ready:
                b = os.read(r, 1 << 20)
                if not b:
                    break
                chunks.append(b)
    finally:
        os.close(r)
    _, status = os.waitpid(pid, 0)
    if not chunks:
        raise HarnessError("%s died (wait status %d) without a result" % (what, status))
    try:
        kind, value = pickle.loads(b"".join(chunks))
    except Exception as exc:
        raise HarnessError("%s returned an unreadable result: %s" % (what, exc))
    if kind == "err":
        raise HarnessError("%s raised inside the harness: %s" % (what, value))
    return value


# --------------------------------------------------------------------------
# worker pool (fork context): workers are themselves pristine templates


_TASK_FN = None


def _alarm(signum, frame):
    raise HarnessError("run exceeded its wall cap (worker watchdog)")


def _pool_entry(chunk):
    out = []
    signal.signal(signal.SIGALRM, _alarm)
    for item in chunk:
        try:
            signal.alarm(int(os.environ.get("VERIF_RUN_CAP", "180")))
            try:
                out.append(("ok", item, _TASK_FN(item)))
            finally:
                signal.alarm(0)
        except HarnessError as exc:
            out.append(("harness", item, str(exc)))
        except Exception as exc:
            out.append(("harness", item, "%s: %s\n%s" % (type(exc).__name__, exc, traceback.format_exc())))
    return out


def pool_map(task_fn, items, workers=None, chunk=8, wall_cap=None, progress=None):
    """Yield ("ok"|"harness", item, result) for every item; order not fixed
    (results are aggregated by commutative operations only)."""
    global _TASK_FN
    import multiprocessing
    from concurrent.futures import ProcessPoolExecutor, as_completed

    items = list(items)
    workers = workers or int(os.environ.get("VERIF_WORKERS", "0")) or min(16, os.cpu_count() or 1)
    _TASK_FN = task_fn
    if workers <= 1:
        for i in range(0, len(items), chunk):
            for r in _pool_entry(items[i:i + chunk]):
                yield r
        return
    ctx = multiprocessing.get_context("fork")
    start = time.monotonic()
    with ProcessPoolExecutor(max_workers=workers, mp_context=ctx) as ex:
        futs = [ex.submit(_pool_entry, items[i:i + chunk]) for i in range(0, len(items), chunk)]
        done = 0
        try:
            for f in as_completed(futs, timeout=wall_cap):
                for r in f.result():
                    done += 1
                    yield r
                if progress and done and time.monotonic() - start > progress[0]:
                    progress[0] += progress[1]
                    sys.stderr.write("  .. %d/%d runs, %.0fs\n" % (done, len(items), time.monotonic() - start))
        except Exception as exc:
            for f in futs:
                f.cancel()
            raise HarnessError("worker pool failed: %s: %s" % (type(exc).__name__, exc))


# --------------------------------------------------------------------------
# delta debugging over a pre-generated operation list + fault plan


def ddmin_list(items, test, budget):
    """Classic ddmin on a list; `test(sub)` is True when the failure persists.
    `budget` is a mutable [candidates_left, deadline]."""
    n = 2
    items = list(items)
    while len(items) >= 1:
        if budget[0] <= 0 or time.monotonic() > budget[1]:
            break
        size = max(1, len(items) // n)
        subsets = [items[i:i + size] for i in range(0, len(items), size)]
        reduced = False
        # try complements (dropping one chunk)
        for i in range(len(subsets)):
            if budget[0] <= 0 or time.monotonic() > budget[1]:
                break
            comp = [x for j, s in enumerate(subsets) if j != i for x in s]
            budget[0] -= 1
            if test(comp):
                items = comp
                n = max(n - 1, 2)
                reduced = True
                break
        if not reduced:
            if size == 1:
                break
            n = min(len(items), n * 2)
    return items


def minimise(case, same_failure, simplifiers=(), max_candidates=300, max_seconds=60.0):
    """Shrink case['ops'] and case['faults'] while `same_failure(case)` holds."""
    budget = [max_candidates, time.monotonic() + max_seconds]
    tried = [0]

    def with_(ops=None, faults=None):
        c = dict(case_box[0])
        if ops is not None:
            c["ops"] = ops
        if faults is not None:
            c["faults"] = faults
        return c

    def test_case(c):
        tried[0] += 1
        try:
            return bool(same_failure(c))
        except HarnessError:
            return False

    case_box = [dict(case)]
    from_ops = len(case_box[0].get("ops", []))
    # 1. faults first (a fault-free reproduction is the simplest story)
    if case_box[0].get("faults"):
        faults = ddmin_list(case_box[0]["faults"], lambda fs: test_case(with_(faults=fs)), budget)
        case_box[0] = with_(faults=faults)
    # 2. operations
    ops = ddmin_list(case_box[0]["ops"], lambda os_: test_case(with_(ops=os_)), budget)
    case_box[0] = with_(ops=ops)
    # 3. faults again, then world-specific simplifications to a fixpoint
    if case_box[0].get("faults"):
        faults = ddmin_list(case_box[0]["faults"], lambda fs: test_case(with_(faults=fs)), budget)
        case_box[0] = with_(faults=faults)
    changed = True
    while changed and budget[0] > 0 and time.monotonic() < budget[1]:
        changed = False
        for simp in simplifiers:
            for cand in simp(case_box[0]):
                if budget[0] <= 0 or time.monotonic() > budget[1]:
                    break
                budget[0] -= 1
                if test_case(cand):
                    case_box[0] = cand
                    changed = True
                    break
    out = case_box[0]
    out["minimised"] = {"from_ops": from_ops, "to_ops": len(out.get("ops", [])), "candidates_tried": tried[0]}
    return out


# --------------------------------------------------------------------------
# known findings


def load_known():
    path = os.path.join(VERIF, "known_findings.json")
    try:
        with open(path) as fh:
            return json.load(fh)
    except FileNotFoundError:
        return {"findings": [], "fixed": []}


def match_known(known, prop, clause, signature):
    import fnmatch

    for f in known.get("findings", []):
        if f.get("property") == prop and fnmatch.fnmatchcase(clause, f.get("clause", "*")) and fnmatch.fnmatchcase(signature, f.get("signature", "")):
            return f
    return None


# --------------------------------------------------------------------------
# evidence


def write_evidence(prop, tier, seed, level, coverage, wall_s, violations, assumptions, extra=None):
    evdir = os.environ.get("VERIF_EVIDENCE_DIR") or os.path.join(VERIF, "evidence")
    os.makedirs(evdir, exist_ok=True)
    doc = {
        "property_id": prop,
        "tier": tier,
        "seed": int(seed),
        "level": level,
        "coverage": coverage,
        "assumptions": assumptions,
        "wall_s": round(float(wall_s), 3),
        "violations": int(violations),
    }
    if extra:
        doc.update(extra)
    path = os.path.join(evdir, prop + ".json")
    tmp = path + ".tmp"
    with open(tmp, "w") as fh:
        json.dump(doc, fh, indent=1, sort_keys=True, default=_default)
        fh.write("\n")
    os.replace(tmp, path)
    return path


class Counter(collections.Counter):
    def merge(self, other):
        for k, v in (other or {}).items():
            self[k] += v
