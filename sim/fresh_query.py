# coding: utf-8
"""Executed as a script in a *freshly spawned interpreter*: answers ONE typing
query (class, record, method) as the first moclo call of the process.  Used to
cross-check that a fork of the template process is as good as a fresh
interpreter (DESIGN.md 2.2)."""
import json
import os
import sys
import warnings

warnings.filterwarnings("ignore")
sys.path.insert(0, os.path.dirname(os.path.dirname(os.path.abspath(__file__))))


def main():
    scratch, query = sys.argv[1], json.loads(sys.argv[2])
    from sim import build
    from sim.worlds import typing as w

    build.activate(scratch)
    w.init(scratch)
    print("ANSWER " + json.dumps(w._oracle_child({}, [], query), sort_keys=True))


if __name__ == "__main__":
    main()
