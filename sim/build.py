# coding: utf-8
"""Scratch build of althonos/moclo from /repo's *working tree*.

Every check copies the sources out of /repo, builds the kit archives with the
kits' own ``setup.py build_ext -i`` (they are git-ignored build products) and
imports moclo from the copy, mirroring tests/__init__.py.  The copy is removed
at exit.  Nothing here calls into moclo code that validates, loads a registry
or assembles: the importing process must stay a *pristine template*.
"""
from __future__ import annotations

import atexit
import glob
import hashlib
import os
import shutil
import subprocess
import sys
import tempfile

REPO = os.environ.get("VERIF_REPO", "/repo")
KITS = ["cidar", "ytk", "ecoflex", "moclo", "plant"]
_IGNORE = shutil.ignore_patterns(
    "__pycache__", "*.pyc", "*.tar.gz", "build", "*.egg-info", ".eggs", "dist"
)

_scratch = None
_owner_pid = None


def _cleanup():
    # only the process that created the scratch removes it (forked children
    # inherit the atexit handler but leave through os._exit anyway)
    if _scratch and _owner_pid == os.getpid():
        shutil.rmtree(_scratch, ignore_errors=True)


def scratch_root():
    base = os.environ.get("VERIF_SCRATCH_BASE")
    if base:
        return base
    return "/dev/shm" if os.path.isdir("/dev/shm") and os.access("/dev/shm", os.W_OK) else tempfile.gettempdir()


def _sweep_stale():
    """Remove scratch copies whose creating process is gone (killed checks)."""
    for d in glob.glob(os.path.join(scratch_root(), "moclo-verif-*")):
        try:
            pid = int(os.path.basename(d).split("-")[2])
        except (IndexError, ValueError):
            continue
        try:
            os.kill(pid, 0)
        except ProcessLookupError:
            shutil.rmtree(d, ignore_errors=True)
        except PermissionError:
            pass


def make_scratch(repo=REPO):
    """Copy the sources, build the archives, return the scratch path."""
    global _scratch, _owner_pid
    _sweep_stale()
    path = tempfile.mkdtemp(prefix="moclo-verif-%d-" % os.getpid(), dir=scratch_root())
    _scratch, _owner_pid = path, os.getpid()
    atexit.register(_cleanup)
    shutil.copytree(os.path.join(repo, "moclo"), os.path.join(path, "moclo"), ignore=_IGNORE)
    for kit in KITS:
        src = os.path.join(repo, "moclo-" + kit)
        shutil.copytree(src, os.path.join(path, "moclo-" + kit), ignore=_IGNORE)
    env = dict(os.environ)
    env["PYTHONDONTWRITEBYTECODE"] = "1"
    env.pop("PYTHONPATH", None)
    for kit in KITS:
        kdir = os.path.join(path, "moclo-" + kit)
        if not glob.glob(os.path.join(kdir, "registry", "*")):
            continue  # moclo-moclo ships no registry
        proc = subprocess.run(
            [sys.executable, "setup.py", "-q", "build_ext", "-i"],
            cwd=kdir, env=env, stdout=subprocess.PIPE, stderr=subprocess.STDOUT, timeout=300,
        )
        if proc.returncode != 0:
            raise RuntimeError("archive build failed for %s:\n%s" % (kit, proc.stdout.decode("utf8", "replace")[-2000:]))
        shutil.rmtree(os.path.join(kdir, "build"), ignore_errors=True)
    return path


def activate(path):
    """Import moclo and the five kits from the scratch copy (no validation)."""
    import warnings

    warnings.filterwarnings("ignore", message="pkg_resources is deprecated")
    warnings.filterwarnings("ignore", category=DeprecationWarning)
    sys.dont_write_bytecode = True
    sys.path.insert(0, os.path.join(path, "moclo"))
    import moclo.kits
    import moclo.registry

    for kit in KITS:
        kdir = os.path.join(path, "moclo-" + kit)
        moclo.kits.__path__.append(os.path.join(kdir, "moclo", "kits"))
        moclo.registry.__path__.append(os.path.join(kdir, "moclo", "registry"))
    import moclo
    import moclo.core  # noqa
    import moclo.record  # noqa
    import moclo.regex  # noqa
    import moclo.registry.base  # noqa
    import moclo.kits.ytk, moclo.kits.cidar, moclo.kits.ecoflex, moclo.kits.moclo, moclo.kits.plant  # noqa
    import moclo.registry.ytk, moclo.registry.cidar, moclo.registry.ecoflex, moclo.registry.plant  # noqa

    real = os.path.realpath(moclo.__file__)
    if not real.startswith(os.path.realpath(path)):
        raise RuntimeError("moclo imported from %s, not from the scratch copy %s" % (real, path))
    return moclo


def source_digest(path):
    """sha256 over the python sources and the archive member lists' inputs."""
    h = hashlib.sha256()
    files = []
    for root, dirs, names in os.walk(path):
        dirs[:] = sorted(d for d in dirs if d != "__pycache__")
        for n in sorted(names):
            if n.endswith((".py", ".gb", ".version")):
                files.append(os.path.join(root, n))
    for f in sorted(files):
        h.update(os.path.relpath(f, path).encode())
        with open(f, "rb") as fh:
            h.update(hashlib.sha256(fh.read()).digest())
    return h.hexdigest()


def repo_head(repo=REPO):
    try:
        head = subprocess.run(["git", "-C", repo, "rev-parse", "HEAD"], stdout=subprocess.PIPE, stderr=subprocess.DEVNULL, timeout=20).stdout.decode().strip()
        dirty = bool(subprocess.run(["git", "-C", repo, "status", "--porcelain", "-uno"], stdout=subprocess.PIPE, stderr=subprocess.DEVNULL, timeout=20).stdout.strip())
        return {"repo_head": head, "dirty": dirty}
    except Exception:
        return {"repo_head": "unknown", "dirty": None}


def gb_sources(path):
    """{registry name: {stem: absolute .gb path}} of the kit plasmid sources."""
    out = {}
    for kit in KITS:
        for d in sorted(glob.glob(os.path.join(path, "moclo-" + kit, "registry", "*"))):
            if os.path.isdir(d):
                out[os.path.basename(d)] = {
                    os.path.splitext(os.path.basename(f))[0]: f for f in sorted(glob.glob(os.path.join(d, "*.gb")))
                }
    return out
