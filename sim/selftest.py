# coding: utf-8
"""Self-tests of the machinery itself (not registered as property checks).

  ./check selftest-determinism   every world: N seeds x {16-worker pool, serial re-run x2,
                                 fresh interpreter under PYTHONHASHSEED=1 and =random}
  ./check selftest-sensitivity   every mutant under /verif/mutants and /verif/seeded is applied
                                 to a scratch copy of /repo and must be reported as a VIOLATION
                                 of its property by the quick check; /repo is never touched

Results go to /verif/selftest/{determinism,sensitivity}.json (not under evidence/, which holds one schema-valid file per claimed property).
"""
from __future__ import annotations

import glob
import json
import os
import subprocess
import sys
import tempfile
import time

from . import kernel

VERIF = kernel.VERIF


def _run_check(prop, env_extra, tier="quick", timeout=7200):
    env = dict(os.environ)
    env.update(env_extra)
    p = subprocess.run([os.path.join(VERIF, "check"), prop, "--tier", tier], cwd=VERIF, env=env, stdout=subprocess.PIPE, stderr=subprocess.STDOUT, timeout=timeout)
    return p.returncode, p.stdout.decode("utf8", "replace")


def determinism(tier, seed):
    n = "64" if tier == "quick" else "256"
    out = {}
    ok = True
    with tempfile.TemporaryDirectory(prefix="selftest-", dir="/tmp") as tmp:
        for prop in ("C06", "C07", "C20"):
            t0 = time.monotonic()
            code, text = _run_check(prop, {"VERIF_DET_SEEDS": n, "VERIF_SCALE": "0.3", "VERIF_EVIDENCE_DIR": tmp, "VERIF_REPLAY_DIR": tmp, "VERIF_SEED": str(seed)})
            ev = {}
            try:
                ev = json.load(open(os.path.join(tmp, prop + ".json")))["coverage"]["determinism_selftest"]
            except Exception:
                pass
            out[prop] = {"exit": code, "wall_s": round(time.monotonic() - t0, 1), "determinism": ev, "tail": text.strip().splitlines()[-2:]}
            print("%s exit=%d seeds=%s comparisons=%s mismatches=%s" % (prop, code, ev.get("seeds"), ev.get("comparisons"), len(ev.get("mismatches", [])) if ev else "?"))
            ok = ok and code == 0 and ev and not ev.get("mismatches")
    with open(os.path.join(VERIF, "selftest", "determinism.json"), "w") as fh:
        json.dump({"tier": tier, "seed": seed, "worlds": out, "ok": bool(ok)}, fh, indent=1, sort_keys=True)
    return 0 if ok else 2


def _mutants():
    items = []
    for d in sorted(glob.glob(os.path.join(VERIF, "seeded", "*", "patch.diff"))):
        sid = os.path.basename(os.path.dirname(d))
        items.append((sid, sid.split("-")[0], d))
    idx = {}
    try:
        idx = json.load(open(os.path.join(VERIF, "mutants", "index.json")))
    except Exception:
        pass
    for p in sorted(glob.glob(os.path.join(VERIF, "mutants", "*.patch"))):
        name = os.path.basename(p)[:-6]
        items.append((name, idx.get(name, {}).get("property", name.split("_")[0].upper()), p))
    return items


def sensitivity(tier, seed, only=None):
    sys.path.insert(0, os.path.join(VERIF, "tools"))
    import run_mutant

    results = {}
    missed = []
    for name, prop, patch in _mutants():
        if only and name not in only:
            continue
        t0 = time.monotonic()
        res = run_mutant.run(patch, [prop])
        code, lines, text = res[prop]
        clauses = sorted(set(l.split("clause=")[1].split()[0] for l in lines if "clause=" in l))
        results[name] = {"property": prop, "exit": code, "detected": code == 1, "clauses": clauses, "wall_s": round(time.monotonic() - t0, 1)}
        print("%-40s %s exit=%d %s" % (name, prop, code, ",".join(clauses)))
        sys.stdout.flush()
        if code != 1:
            missed.append(name)
    with open(os.path.join(VERIF, "selftest", "sensitivity.json"), "w") as fh:
        json.dump({"tier": tier, "seed": seed, "mutants": results, "missed": missed}, fh, indent=1, sort_keys=True)
    print("sensitivity: %d mutants, %d detected, missed: %s" % (len(results), len(results) - len(missed), missed))
    return 0 if not missed else 1


def main(which, tier, seed):
    os.makedirs(os.path.join(VERIF, "selftest"), exist_ok=True)
    if which == "selftest-determinism":
        return determinism(tier, seed)
    if which == "selftest-sensitivity":
        only = [x for x in os.environ.get("VERIF_ONLY", "").split(",") if x]
        return sensitivity(tier, seed, only)
    raise SystemExit("unknown selftest %r" % which)
