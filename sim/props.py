# coding: utf-8
"""Property -> (world module, level, rule, assumptions)."""
from __future__ import annotations


def lookup(prop):
    if prop == "C06":
        from .worlds import typing as w

        return (
            w, "exploration",
            "Each case is one simulated run: 1-3 clients issue a pre-generated, seed-derived script of 12-60 operations (new/is_valid/overhang_*/target/placeholder/characterize/structure/define/assemble) over the shared process-global class state; a seeded scheduler interleaves the scripts. Runs are either random or prefixed by 'prime class A, then query class B' for an ordered class pair. Every observing operation is compared with the same query issued as the FIRST call in a process forked from the never-used template. Distinct = distinct run digest (sha256 of the event log). Non-trivial = the run queried a class after a related class (ancestor, descendant or sibling) on a record that exactly one of the two accepts, i.e. a history in which a leak between the two would change the answer.",
            [
                "fork() of the never-used template process is equivalent to a fresh interpreter (cross-checked against real fresh interpreters in the determinism self-test and the thorough fresh-oracle sample)",
                "operations are atomic: the library is synchronous and the property speaks about calls made beforehand, not about pre-emption inside a call",
                "the sampled histories are evidence, not proof: seeded search, not exhaustive enumeration",
            ],
        )
    if prop in ("C07", "C10"):
        from .worlds import assembly as w

        return (w,) + w.describe(prop)
    if prop == "C20":
        from .worlds import registry as w

        return (w,) + w.describe(prop)
    from . import kernel

    raise kernel.HarnessError("no check is registered for %r (claimed: C06, C07, C10, C20)" % prop)
