# coding: utf-8
"""Synthetic Golden Gate plasmids, generated without any moclo code.

Only used to *build workloads*; no oracle relies on these constructions being
accepted by moclo (reach probes report how many were).
"""
from __future__ import annotations

_COMP = {"A": "T", "C": "G", "G": "C", "T": "A", "N": "N"}

# 5'-overhang Type IIS enzymes used by the bundled kits (+ SapI for 3-nt overhangs)
CUTTERS = ["BsaI", "BsmBI", "BpiI", "BbsI", "SapI"]


def rc(s):
    return "".join(_COMP[c] for c in reversed(s.upper()))


def geometry(name):
    """(site, gap, overhang length) parsed from Bio.Restriction's elucidate()."""
    import Bio.Restriction as R

    enz = getattr(R, name)
    e = enz.elucidate()  # e.g. GGTCTCN^NNNN_N
    site = enz.site
    assert e.startswith(site), (name, e)
    rest = e[len(site):]
    gap = rest.index("^")
    ov = rest.index("_") - gap - 1
    assert set(rest.replace("^", "").replace("_", "")) <= {"N"}, (name, e)
    assert ov > 0
    return {"name": name, "site": site, "gap": gap, "ov": ov}


def rand_dna(rng, n, alphabet="ACGT"):
    return "".join(rng.choice(alphabet) for _ in range(n))


def count_circular(seq, sub):
    d = seq + seq[: len(sub) - 1]
    n, i = 0, d.find(sub)
    while i != -1:
        n += 1
        i = d.find(sub, i + 1)
    return n


def _clean(rng, n, forbidden, tries=200):
    """Random DNA of length n with none of `forbidden` (nor across its ends
    when flanked by the letters we control: checked again on the whole)."""
    for _ in range(tries):
        s = rand_dna(rng, n)
        if not any(f in s for f in forbidden):
            return s
    return "A" * n


def overhangs(rng, k, count, avoid=()):
    """`count` distinct, non-palindromic overhangs of length k, no two being
    reverse complements of each other, none in `avoid`."""
    out = []
    guard = 0
    while len(out) < count:
        guard += 1
        if guard > 10000:
            raise RuntimeError("cannot draw overhangs")
        o = rand_dna(rng, k)
        if o == rc(o) or o in out or rc(o) in out or o in avoid or rc(o) in avoid:
            continue
        out.append(o)
    return out


def make_module(rng, geom, up, down, target_len=12, backbone_len=20, all_sites=()):
    """site gap [up target] down gap rc(site) backbone  -> (seq, segments)."""
    site, gap = geom["site"], geom["gap"]
    forb = set()
    for s in tuple(all_sites) + (site,):
        forb.add(s)
        forb.add(rc(s))
    for _ in range(200):
        g1, g2 = rand_dna(rng, gap), rand_dna(rng, gap)
        target = _clean(rng, max(2, target_len), forb)
        backbone = _clean(rng, backbone_len, forb)
        seq = site + g1 + up + target + down + g2 + rc(site) + backbone
        ok = count_circular(seq, site) == 1 and count_circular(seq, rc(site)) == 1
        ok = ok and all(count_circular(seq, s) == 0 and count_circular(seq, rc(s)) == 0 for s in all_sites if s != site)
        if ok:
            a = len(site) + gap
            seg = {
                "retained": [a, a + len(up) + len(target)],
                "target": [a + len(up), a + len(up) + len(target)],
                "discarded": [a + len(up) + len(target) + len(down) + gap + len(site), len(seq)],
            }
            return seq, seg
    raise RuntimeError("cannot build module")


def make_vector(rng, geom, ov_end, ov_start, placeholder_len=10, backbone_len=30, all_sites=()):
    """[ov_end] gap rc(site) placeholder site gap [ov_start backbone] -> (seq, segments).

    moclo reads group 1 (ov_end) as the *downstream* overhang (where the first
    module attaches) and group 3 (ov_start) as the upstream one."""
    site, gap = geom["site"], geom["gap"]
    forb = set()
    for s in tuple(all_sites) + (site,):
        forb.add(s)
        forb.add(rc(s))
    for _ in range(200):
        g1, g2 = rand_dna(rng, gap), rand_dna(rng, gap)
        ph = _clean(rng, placeholder_len, forb)
        backbone = _clean(rng, max(2, backbone_len), forb)
        seq = ov_end + g1 + rc(site) + ph + site + g2 + ov_start + backbone
        ok = count_circular(seq, site) == 1 and count_circular(seq, rc(site)) == 1
        ok = ok and all(count_circular(seq, s) == 0 and count_circular(seq, rc(s)) == 0 for s in all_sites if s != site)
        if ok:
            b = len(ov_end) + gap + len(site) + len(ph) + len(site) + gap
            seg = {
                "retained": [b, len(seq)],
                "target": [b + len(ov_start), len(seq)],
                "discarded": [len(ov_end) + gap + len(site), len(ov_end) + gap + len(site) + len(ph)],
            }
            return seq, seg
    raise RuntimeError("cannot build vector")


def rotate_right(seq, k):
    k %= len(seq)
    return seq[-k:] + seq[:-k] if k else seq


def make_vector2(rng, geom, ov_end, ov_start, geom2, up2, down2, placeholder_len=10, backbone_len=30):
    """A level-l vector whose retained backbone turns the assembled product into
    a valid level-(l+1) module for the enzyme `geom2` with overhangs (up2, down2):

      [ov_end] gap rc(site) placeholder site gap [ov_start x1 down2 gap2 rc(site2) backbone site2 gap2 up2 x2]

    In the circular product the insert sits between x2 and ov_start, i.e. inside
    the target of   site2 gap2 (up2)(x2 insert ov_start x1)(down2) gap2 rc(site2)."""
    site, gap = geom["site"], geom["gap"]
    site2, gap2 = geom2["site"], geom2["gap"]
    forb = {site, rc(site), site2, rc(site2)}
    for _ in range(300):
        g1, g2 = rand_dna(rng, gap), rand_dna(rng, gap)
        h1, h2 = rand_dna(rng, gap2), rand_dna(rng, gap2)
        ph = _clean(rng, placeholder_len, forb)
        backbone = _clean(rng, max(2, backbone_len), forb)
        x1, x2 = _clean(rng, rng.randint(1, 6), forb), _clean(rng, rng.randint(1, 6), forb)
        seq = ov_end + g1 + rc(site) + ph + site + g2 + ov_start + x1 + down2 + h1 + rc(site2) + backbone + site2 + h2 + up2 + x2
        ok = count_circular(seq, site) == 1 and count_circular(seq, rc(site)) == 1 and count_circular(seq, site2) == 1 and count_circular(seq, rc(site2)) == 1
        if ok:
            b = len(ov_end) + gap + len(site) + len(ph) + len(site) + gap
            seg = {"retained": [b, len(seq)], "target": [b + len(ov_start), len(seq)],
                   "discarded": [len(ov_end) + gap + len(site), len(ov_end) + gap + len(site) + len(ph)]}
            return seq, seg
    raise RuntimeError("cannot build two-level vector")
