# coding: utf-8
"""`assembly` world — C07 (purity, also under failure) and C10 (citations).

System under test (real): AbstractVector.assemble / AssemblyManager, module and
vector fragment extraction, CircularRecord rotation/slicing, Biopython.
Simulated: clients sharing one pool of record objects and wrapper instances,
a seeded scheduler interleaving their scripts, and a fault plan that raises
exceptions at enumerated crash points inside assemble():
  * call-boundary: the k-th call the manager makes into an element method
    (overhang_start / overhang_end / target_sequence), before or after its work;
  * interior: the n-th `line` event of moclo code inside a target_sequence call.
Oracles: snapshot purity of every pool record after every operation; equality
with a reference execution of the same call in a pristine process on a freshly
built pool (as last edited by the clients); citation index arithmetic computed
from the generated catalogue only.
"""
from __future__ import annotations

import os
import re
import sys

from .. import dna, kernel
from ..kernel import h64, stream

PROPS = ["C07", "C10"]
CUTTERS = ["BsaI", "BsmBI", "BpiI", "BbsI", "SapI"]
EXC_KINDS = ["InjectedFault", "MemoryError", "OSError", "InvalidSequence", "KeyError", "KeyboardInterrupt"]
ELEMENT_METHODS = ["overhang_start", "overhang_end", "target_sequence"]

W = {}


class InjectedFault(Exception):
    pass


# --------------------------------------------------------------------------
# template initialisation


def init(scratch, tier="quick"):
    import Bio.Restriction
    import moclo.core as core

    W.clear()
    W["scratch"] = scratch
    classes = {}
    for cu in CUTTERS:
        for b in ("Entry", "Cassette", "EntryVector", "CassetteVector"):
            cid = "gen:%s:%s" % (b, cu)
            classes[cid] = type(str("Gen%s_%s" % (b, cu)), (getattr(core, b),), {"cutter": getattr(Bio.Restriction, cu), "__module__": "simdefs"})
    import moclo.kits.cidar as cidar

    for name in ("CIDARCassetteVector", "CIDAREntryVector", "CIDARPromoter", "CIDARRibosomeBindingSite", "CIDARCodingSequence", "CIDARTerminator", "CIDARPart", "CIDAREntry"):
        classes["kit:cidar." + name] = getattr(cidar, name)
    import moclo.kits.ytk as ytk

    for name in ("YTKPart1", "YTKPart2", "YTKPart3", "YTKPart4", "YTKPart5", "YTKPart6", "YTKPart7", "YTKPart8", "YTKPart678", "YTKPart234"):
        classes["kit:ytk." + name] = getattr(ytk, name)
    W["classes"] = classes
    W["moclo_dir"] = os.path.join(os.path.realpath(scratch), "moclo", "moclo") + os.sep
    W["kit_gb"] = {}
    from .. import build

    for reg, files in build.gb_sources(scratch).items():
        for stem, path in files.items():
            W["kit_gb"]["%s/%s" % (reg, stem)] = path
    W["dry_memo"] = {}
    return W


def prepare():
    pass


# --------------------------------------------------------------------------
# building the pool from the catalogue (run child and reference child)


def _mk_reference(rd):
    from Bio.SeqFeature import Reference

    r = Reference()
    r.title = rd["title"]
    r.authors = rd["authors"]
    r.journal = rd.get("journal", "J. Sim. %s" % rd["id"])
    if rd.get("pubmed_id"):
        r.pubmed_id = rd["pubmed_id"]
    if rd.get("comment"):
        r.comment = rd["comment"]
    if rd.get("location"):
        from Bio.SeqFeature import FeatureLocation

        r.location = [FeatureLocation(rd["location"][0], rd["location"][1])]
    return r


def _mk_location(parts):
    from Bio.SeqFeature import FeatureLocation, CompoundLocation

    locs = [FeatureLocation(s, e, strand=st) for s, e, st in parts]
    return locs[0] if len(locs) == 1 else CompoundLocation(locs)


def build_pool(cat, strip_citations=False):
    """catalogue -> {record id: record object}.  References flagged
    shared_object are one Python object in every record that lists them."""
    from Bio.Seq import Seq
    from Bio.SeqFeature import SeqFeature
    from Bio.SeqRecord import SeqRecord
    import Bio.SeqIO
    from moclo.record import CircularRecord

    refdefs = {r["id"]: r for r in cat.get("refs", [])}
    shared = {}
    pool = {}
    for rd in cat["pool"]:
        if rd.get("derive"):
            continue  # second pass below
        if rd.get("source"):
            src = Bio.SeqIO.read(W["kit_gb"][rd["source"]], "gb")
            rec = CircularRecord(src)
            rec.id = rd["id"]
            feats = rec.features
            for fi, cites in (rd.get("cite") or {}).items():
                f = feats[int(fi)]
                f.qualifiers["note"] = list(f.qualifiers.get("note", [])) + ["uid:%s:%s" % (rd["id"], fi)]
                if cites and not strip_citations:
                    f.qualifiers["citation"] = ["[%d]" % c for c in cites]
        else:
            feats = []
            for fd in rd.get("features", []):
                q = {}
                for k, v in fd.get("qualifiers", {}).items():
                    q[k] = list(v)
                q["note"] = ["uid:" + fd["uid"]]
                if fd.get("citation_raw") and not strip_citations:
                    q["citation"] = list(fd["citation_raw"])
                elif fd.get("citation") and not strip_citations:
                    q["citation"] = ["[%d]" % c for c in fd["citation"]]
                feats.append(SeqFeature(_mk_location(fd["parts"]), type=fd["type"], id=fd.get("fid", "<unknown id>"), qualifiers=q))
            ann = {"molecule_type": "DNA"}
            if rd.get("topology", "circular") is not None:
                ann["topology"] = rd.get("topology", "circular")
            for k, v in (rd.get("annotations") or {}).items():
                ann[k] = v
            rec = CircularRecord(Seq(rd["seq"]), id=rd.get("rec_id", rd["id"]), name=rd.get("name", rd["id"]), description=rd.get("description", "synthetic " + rd["id"]), dbxrefs=list(rd.get("dbxrefs", [])), features=feats, annotations=ann if "topology" in ann else None)
            if "topology" not in ann:
                # a record that never had a topology entry: its annotations are filled in after
                # construction, as a caller editing a freshly built record would
                rec.annotations.pop("topology", None)
                rec.annotations.update(ann)
        refs = rd.get("references")
        if refs is not None and not strip_citations:
            lst = []
            for rid in refs:
                d = refdefs[rid]
                if d.get("shared_object"):
                    if rid not in shared:
                        shared[rid] = _mk_reference(d)
                    lst.append(shared[rid])
                else:
                    lst.append(_mk_reference(d))
            rec.annotations["references"] = lst
        elif strip_citations:
            rec.annotations.pop("references", None)
            for f in rec.features:
                f.qualifiers.pop("citation", None)
        pool[rd["id"]] = rec
    for rd in cat["pool"]:
        d = rd.get("derive")
        if d and d["from"] in pool:
            # the caller derived this record from another pool record with moclo's own rotation
            # operator; the two share their qualifier dictionaries and their annotations
            pool[rd["id"]] = pool[d["from"]] >> d["k"]
    return pool


def apply_edit(cat, pool, op, strip=False):
    """Caller-level edits (the clients own the records)."""
    if strip and op["op"] == "edit_citation":
        return  # the citation-free twin of the pool has no citations to edit
    from Bio.Seq import Seq

    rec = pool[op["rec"]]
    rd = next(r for r in cat["pool"] if r["id"] == op["rec"])
    if op["op"] == "edit_seq":
        rec.seq = Seq(rd["broken_seq"])
    elif op["op"] == "repair":
        rec.seq = Seq(rd["seq"]) if not rd.get("source") else Seq(rd["orig_seq"])
    elif op["op"] == "edit_citation":
        for f in rec.features:
            if ("uid:" + op["uid"]) in f.qualifiers.get("note", []):
                new = ["[%d]" % c for c in op["citation"]]
                if op.get("in_place") and isinstance(f.qualifiers.get("citation"), list) and new:
                    f.qualifiers["citation"][:] = new      # the caller edits the list it already holds
                elif new:
                    f.qualifiers["citation"] = new
                else:
                    f.qualifiers.pop("citation", None)
    elif op["op"] == "edit_annot":
        if op["what"] == "description":
            rec.description = op["value"]
        elif op["what"] == "qualifier":
            # only features the catalogue defined (tagged with a uid note) are edited, so that a
            # feature smuggled into the record by the code under test cannot derail the client
            own = [f for f in rec.features if any(str(n).startswith("uid:") for n in f.qualifiers.get("note", []))]
            if own:
                f = own[op["feature"] % len(own)]
                labels = f.qualifiers.get("label", [])
                f.qualifiers["label"] = (list(labels) if isinstance(labels, (list, tuple)) else [labels]) + [op["value"]]
        elif op["what"] == "annotation":
            rec.annotations["keywords"] = [op["value"]]
    else:
        raise ValueError(op["op"])


# --------------------------------------------------------------------------
# canonical snapshots (no moclo code involved)


def _canon_ref(r):
    return {"Reference": [getattr(r, a, None) for a in ("title", "authors", "journal", "consrtm", "medline_id", "pubmed_id", "comment")], "loc": [[int(l.start), int(l.end)] if hasattr(l, "start") else repr(l) for l in getattr(r, "location", [])]}


def _canon_value(v):
    from Bio.SeqFeature import Reference

    if isinstance(v, Reference):
        return _canon_ref(v)
    if isinstance(v, (str, int, float, bool)) or v is None:
        return v
    if isinstance(v, (list, tuple)):
        return [_canon_value(x) for x in v]
    if isinstance(v, dict):
        return {str(k): _canon_value(x) for k, x in v.items()}
    return re.sub(r" at 0x[0-9a-fA-F]+", "", repr(v))  # never let an address into a digest


def _canon_loc(loc):
    if loc is None:
        return None
    parts = getattr(loc, "parts", [loc])
    return {"op": getattr(loc, "operator", None), "parts": [[repr(p.start), repr(p.end), p.strand, p.ref, p.ref_db] for p in parts]}


def snapshot(rec):
    ann = {}
    for k, v in rec.annotations.items():
        if k == "references":
            continue
        ann[str(k)] = _canon_value(v)
    # isinstance, not duck typing: a str has a .title METHOD, and a stray "[1]" string in a
    # reference list must show up as that string, not as an address-bearing repr
    refs = [_canon_value(r) for r in rec.annotations.get("references", [])]
    return {
        "type": type(rec).__name__,
        "seq": str(rec.seq),
        "id": rec.id, "name": rec.name, "description": rec.description,
        "dbxrefs": list(rec.dbxrefs),
        "features": [
            {"type": f.type, "id": f.id, "loc": _canon_loc(f.location), "qualifiers": sorted([str(k), _canon_value(v)] for k, v in f.qualifiers.items())}
            for f in rec.features
        ],
        "annotations": ann,
        "references": refs,  # absent == empty: the one equivalence the statement grants
        "letter_annotations": {str(k): _canon_value(list(v) if not isinstance(v, str) else v) for k, v in rec.letter_annotations.items()},
    }


def _citation_view(snap):
    """The citation qualifiers and the reference list of a snapshot."""
    return [[v for k, v in f["qualifiers"] if k == "citation"] for f in snap["features"]], snap["references"]


def first_difference(a, b, path=""):
    if type(a) != type(b):
        return path or "/", a, b
    if isinstance(a, dict):
        for k in sorted(set(a) | set(b)):
            if k not in a or k not in b:
                return "%s/%s" % (path, k), a.get(k, "<absent>"), b.get(k, "<absent>")
            d = first_difference(a[k], b[k], "%s/%s" % (path, k))
            if d:
                return d
        return None
    if isinstance(a, list):
        if len(a) != len(b):
            return path + "/len", len(a), len(b)
        for i, (x, y) in enumerate(zip(a, b)):
            d = first_difference(x, y, "%s/%d" % (path, i))
            if d:
                return d
        return None
    return None if a == b else (path or "/", a, b)


def _short(v, n=200):
    s = kernel.canon(v)
    return s if len(s) <= n else s[:n] + "..."


# --------------------------------------------------------------------------
# fault injection seams


def _make_exc(kind, where):
    if kind == "InjectedFault":
        return InjectedFault("injected at %s" % where)
    if kind == "MemoryError":
        return MemoryError("injected at %s" % where)
    if kind == "OSError":
        return OSError(5, "injected at %s" % where)
    if kind == "KeyError":
        return KeyError("injected at %s" % where)
    if kind == "KeyboardInterrupt":
        # the user interrupts a long assembly and carries on with the same objects: the call
        # "raises", and the statement covers that ("returns, warns or raises")
        return KeyboardInterrupt("injected at %s" % where)
    if kind == "InvalidSequence":
        from moclo import errors

        return errors.InvalidSequence("injected", details="injected at %s" % where)
    raise ValueError(kind)


class BoundaryInjector(object):
    """Counts the calls the assembly makes into its elements and raises at the
    k-th one, before or after the real method ran.

    The seam is installed on the elements' *classes* for the duration of one
    assemble call and dispatches to the original function with whatever `self`
    it is called on, so an implementation that works on stand-ins or copies of
    the elements (copy.copy(module) pointing at a scratch record) is driven and
    counted exactly like one that uses the caller's objects.  (A first version
    patched the instances' __dict__; copy.copy() then carried the patched
    closure - bound to the ORIGINAL element - over to the stand-in, and the
    harness itself made a correct re-implementation extract from the wrong
    record.  See DESIGN.md 9.3.)  Nothing else runs during the call (single
    thread, atomic operations), so every call seen here is the manager's."""

    def __init__(self, instances, fault):
        self.fault = fault
        self.count = 0
        self.fired = None
        self.trace = []
        self._class_patches = []
        self._labels = {}
        classes = []
        for label, inst in instances:
            self._labels.setdefault(id(inst), label)
            if type(inst) not in classes:
                classes.append(type(inst))
        # phase 1: resolve the original functions before anything is patched
        originals = {}
        for cls in classes:
            for m in ELEMENT_METHODS:
                originals[(cls, m)] = (m in cls.__dict__, cls.__dict__.get(m), getattr(cls, m))
        # phase 2: shadow them
        for (cls, m), (had, raw, func) in originals.items():
            setattr(cls, m, self._dispatch(m, func))
            self._class_patches.append((cls, m, had, raw))

    def _dispatch(self, mname, func):
        inj = self

        def dispatch(self_, *a, **kw):
            label = inj._labels.get(id(self_)) or "copy-of:%s" % getattr(getattr(self_, "record", None), "id", "?")
            k = inj.count
            inj.count += 1
            inj.trace.append("%s.%s" % (label, mname))
            f = inj.fault
            hit = f is not None and f.get("mode") == "boundary" and f["call"] == k and inj.fired is None
            if hit and f["when"] == "before":
                inj.fired = "%s.%s#%d:before" % (label, mname, k)
                raise _make_exc(f["exc"], inj.fired)
            out = func(self_, *a, **kw)
            if hit and f["when"] == "after":
                inj.fired = "%s.%s#%d:after" % (label, mname, k)
                raise _make_exc(f["exc"], inj.fired)
            return out

        return dispatch

    def remove(self):
        for cls, m, had, raw in self._class_patches:
            if had:
                setattr(cls, m, raw)
            else:
                try:
                    delattr(cls, m)
                except AttributeError:
                    pass
        self._class_patches = []


class LineInjector(object):
    """sys.settrace based: counts `line` events of moclo frames inside the
    dynamic extent of a target_sequence() call (frames of _assembly.py are not
    crash points) and raises at the n-th."""

    def __init__(self, fault):
        self.fault = fault
        self.n = 0
        self.depth = 0
        self.fired = None
        self.files = kernel.Counter()
        self.moclo_dir = W["moclo_dir"]

    def _global(self, frame, event, arg):
        if event != "call":
            return None
        fn = frame.f_code.co_filename
        if not fn.startswith(self.moclo_dir):
            return None
        base = os.path.basename(fn)
        is_target = frame.f_code.co_name == "target_sequence"
        if is_target:
            self.depth += 1
        if self.depth <= 0:
            return None
        if base == "_assembly.py":
            return None
        return self._make_local(is_target, base)

    def _make_local(self, is_target, base):
        def local(frame, event, arg):
            if event == "line":
                k = self.n
                self.n += 1
                self.files[base] += 1
                f = self.fault
                if f is not None and f.get("mode") == "line" and f["n"] == k and self.fired is None:
                    self.fired = "%s:%d#%d" % (base, frame.f_lineno, k)
                    raise _make_exc(f["exc"], self.fired)
            elif event == "return" and is_target:
                self.depth -= 1
            return local

        return local

    def __enter__(self):
        sys.settrace(self._global)
        return self

    def __exit__(self, *a):
        sys.settrace(None)


# --------------------------------------------------------------------------
# outcomes


def canon_exception(exc, env):
    from moclo import errors

    d = {"exc": type(exc).__name__}
    if isinstance(exc, errors.DuplicateModules):
        d["duplicates"] = [getattr(getattr(x, "record", None), "id", repr(type(x))) for x in exc.duplicates]
        d["details"] = exc.details
    elif isinstance(exc, errors.UnusedModules):
        d["remaining"] = [getattr(getattr(x, "record", None), "id", "?") for x in exc.remaining]
    elif isinstance(exc, errors.MissingModule):
        d["start_overhang"] = str(exc.start_overhang)
        d["details"] = exc.details
    elif isinstance(exc, errors.InvalidSequence):
        s = exc.sequence
        if hasattr(s, "record"):
            d["sequence"] = getattr(s.record, "id", None)
        elif hasattr(s, "id"):
            d["sequence"] = s.id
        else:
            d["sequence"] = str(s)[:40]
        d["details"] = exc.details
    else:
        d["msg"] = re.sub(r" at 0x[0-9a-fA-F]+", "", str(exc))[:160]
    return d


def do_assemble(env, op, fault):
    """Execute one assemble op in this process; returns the canonical outcome
    plus injector bookkeeping.  `fault` None => fault-free."""
    import warnings

    vec = env["handles"].get(op["vec"])
    mods = [env["handles"].get(h) for h in op["mods"]]
    if vec is None or not mods or any(m is None for m in mods):
        return {"skip": "no-handle"}, None
    instances = [("vector", vec)] + [("mod%d" % i, m) for i, m in enumerate(mods)]
    binj = BoundaryInjector(instances, fault if fault and fault.get("mode") == "boundary" else None) if (fault is not None or op.get("count_calls")) else None
    linj = LineInjector(fault if fault and fault.get("mode") == "line" else None) if (fault and fault.get("mode") == "line") or op.get("count_lines") else None
    info = {}
    try:
        with warnings.catch_warnings(record=True) as wlist:
            warnings.simplefilter("always")
            if op.get("warnings") == "error":
                # the caller turned moclo's assembly warnings into errors (documented usage):
                # UnusedModules is then *raised* from inside the mutate/restore window
                from moclo import errors as _errors

                warnings.simplefilter("error", category=_errors.AssemblyWarning)
            try:
                if linj is not None:
                    with linj:
                        prod = vec.assemble(*mods, id=op.get("out_id", "assembly"), name=op.get("out_name", "assembly"))
                else:
                    prod = vec.assemble(*mods, id=op.get("out_id", "assembly"), name=op.get("out_name", "assembly"))
                out = {"product": snapshot(prod)}
                env["last_product"] = prod
            except Exception as exc:
                out = canon_exception(exc, env)
                env["last_product"] = None
            except KeyboardInterrupt as exc:
                if "injected at" not in str(exc):
                    raise
                out = {"exc": "KeyboardInterrupt", "msg": str(exc)[:160]}
                env["last_product"] = None
        ws = []
        for w in wlist:
            m = w.message
            if hasattr(m, "remaining"):
                ws.append({"warning": type(m).__name__, "remaining": [getattr(getattr(x, "record", None), "id", "?") for x in m.remaining]})
            elif type(m).__module__.startswith("moclo"):
                ws.append({"warning": type(m).__name__})
        out["warnings"] = ws
    finally:
        if binj is not None:
            binj.remove()
    if binj is not None:
        info["calls"] = binj.count
        info["fired"] = binj.fired
        info["trace"] = binj.trace
    if linj is not None:
        info["lines"] = linj.n
        info["fired"] = linj.fired or info.get("fired")
        info["files"] = dict(linj.files)
    return out, info


# --------------------------------------------------------------------------
# run child


def _new_env(cat, strip=False):
    pool = build_pool(cat, strip_citations=strip)
    env = {"pool": pool, "handles": {}, "wrap_def": {}}
    for wd in cat["wrappers"]:
        env["wrap_def"][wd["h"]] = wd
        env["handles"][wd["h"]] = W["classes"][wd["cls"]](pool[wd["rec"]])
    return env


def _apply_keep(env, op, baseline=None):
    """A client keeps the product of this call and uses it as an input later
    (multi-level assembly): it joins the shared pool under op['keep']."""
    prod = env.get("last_product")
    if prod is None or not op.get("keep"):
        return False
    rid = op["keep"]
    env["pool"][rid] = prod
    env["wrap_def"]["w:" + rid] = {"h": "w:" + rid, "cls": op["keep_cls"], "rec": rid}
    try:
        env["handles"]["w:" + rid] = W["classes"][op["keep_cls"]](prod)
    except Exception:
        env["handles"].pop("w:" + rid, None)
    if baseline is not None:
        baseline[rid] = snapshot(prod)
    return True


def _run_child(case):
    cat = case["catalogue"]
    env = _new_env(cat)
    pool = env["pool"]
    baseline = {rid: snapshot(r) for rid, r in pool.items()}
    faults = {f["op"]: f for f in case.get("faults", [])}
    out = []
    for op in case["ops"]:
        k = op["op"]
        ev = {"purity": None}
        if k == "assemble":
            res, info = do_assemble(env, op, faults.get(op["id"]))
            ev["outcome"] = res
            ev["info"] = info
            if op.get("keep") and "product" in res:
                ev["kept"] = _apply_keep(env, op, baseline)
        elif k == "probe":
            inst = env["handles"].get(op["h"])
            if inst is None:
                ev["outcome"] = {"skip": "no-handle"}
            else:
                try:
                    r = getattr(inst, op["method"])()
                    if hasattr(r, "features"):
                        r = snapshot(r)
                    elif not isinstance(r, bool):
                        r = str(r)
                    ev["outcome"] = {"ok": kernel.digest_of(r)[:16]}
                except Exception as exc:
                    ev["outcome"] = {"exc": type(exc).__name__}
        elif k in ("edit_seq", "repair", "edit_annot", "edit_citation"):
            # a caller-level edit changes exactly what it says: the baseline is updated by
            # applying the same edit to a copy of the baseline record, so damage done earlier
            # by the code under test is not absorbed into the baseline
            # records derived from the edited one by rotation share its qualifier dictionaries and
            # annotations: the caller's edit legitimately shows through them as well
            group = [op["rec"]] + [r_["id"] for r_ in cat["pool"] if (r_.get("derive") or {}).get("from") == op["rec"] and r_["id"] in pool]
            before = {r_: snapshot(pool[r_]) for r_ in group}
            try:
                apply_edit(cat, pool, op)
                ev["outcome"] = "ok"
            except Exception as exc:
                ev["outcome"] = {"exc": type(exc).__name__}
            for r_ in group:
                if before[r_] == baseline[r_]:
                    baseline[r_] = snapshot(pool[r_])
        elif k == "rewrap":
            wd = env["wrap_def"].get(op["h"])
            if wd is not None:
                try:
                    env["handles"][op["h"]] = W["classes"][wd["cls"]](pool[wd["rec"]])
                    ev["outcome"] = "ok"
                except Exception as exc:
                    ev["outcome"] = {"exc": type(exc).__name__}
            else:
                ev["outcome"] = {"skip": "no-handle"}
        else:
            raise ValueError(k)
        # purity of EVERY pool record after EVERY operation
        diffs = []
        for rid, rec in pool.items():
            now = snapshot(rec)
            if now != baseline[rid]:
                d = first_difference(baseline[rid], now)
                diffs.append({"rec": rid, "path": d[0], "before": _short(d[1]), "after": _short(d[2]), "citation_data": _citation_view(baseline[rid]) != _citation_view(now)})
                baseline[rid] = now  # report each corruption once
        if diffs:
            ev["purity"] = diffs
        out.append(ev)
    return out


# --------------------------------------------------------------------------
# reference child: the same call, first call of a pristine process, fresh pool


def _fresh_wrappers(env, wdefs, op):
    for h in [op["vec"]] + list(op["mods"]):
        wd = wdefs.get(h) or env["wrap_def"].get(h)
        if wd is not None and wd["rec"] in env["pool"]:
            try:
                env["handles"][h] = W["classes"][wd["cls"]](env["pool"][wd["rec"]])
            except Exception:
                env["handles"].pop(h, None)


def _reference_child(cat, history, op, strip):
    """The same call as the first call of a pristine process on a freshly built
    pool: caller edits and kept products are reproduced in their original order
    (kept products by fault-free assemblies with fresh wrappers)."""
    env = _new_env({"pool": cat["pool"], "refs": cat.get("refs", []), "wrappers": []}, strip=strip)
    wdefs = {wd["h"]: wd for wd in cat["wrappers"]}
    for e in history:
        if e["op"] == "assemble":
            env["handles"] = {}
            _fresh_wrappers(env, wdefs, e)
            res, _ = do_assemble(env, e, None)
            if "product" in res:
                _apply_keep(env, e)
        else:
            apply_edit(cat, env["pool"], e, strip=strip)
    env["handles"] = {}
    _fresh_wrappers(env, wdefs, op)
    res, _ = do_assemble(env, op, None)
    return res


def _dry_child(case, op_index):
    """Count the element calls / interior lines of one assemble op, executed on
    a fresh pool after the edits that precede it."""
    cat = case["catalogue"]
    env = _new_env(cat)
    for e in case["ops"][:op_index]:
        if e["op"] in ("edit_seq", "repair", "edit_annot", "edit_citation"):
            apply_edit(cat, env["pool"], e)
    op = dict(case["ops"][op_index], count_calls=True, count_lines=True)
    res, info = do_assemble(env, op, None)
    return {"calls": info["calls"], "lines": info["lines"], "trace": info["trace"], "outcome": res.get("exc") or "product"}


# --------------------------------------------------------------------------
# C10 oracle: index arithmetic over the generated catalogue


_CIT = re.compile(r"^\[(\d+)\]$")


def _ref_key(canon_ref):
    return canon_ref["Reference"][0] if isinstance(canon_ref, dict) and "Reference" in canon_ref else None


def _ref_content_key(c):
    """Everything Biopython's Reference.__eq__ compares, from a canonical reference."""
    return (tuple(c["Reference"]), tuple(tuple(x) if isinstance(x, list) else x for x in c.get("loc", []))) if isinstance(c, dict) and "Reference" in c else None


def _ref_def_key(r):
    loc = [tuple(r["location"])] if r.get("location") else []
    return ((r["title"], r["authors"], r.get("journal", "J. Sim. %s" % r["id"]), "", "", r.get("pubmed_id", ""), r.get("comment", "")), tuple(loc))


def current_citations(cat, edits=()):
    """uid -> list of reference ids its feature cites now (catalogue + caller edits)."""
    src = {}
    for rd in cat["pool"]:
        refs = rd.get("references") or []
        if rd.get("source"):
            for fi, cites in (rd.get("cite") or {}).items():
                src["uid:%s:%s" % (rd["id"], fi)] = [refs[c - 1] for c in cites]
        else:
            for fd in rd.get("features", []):
                if fd.get("citation_raw"):
                    src["uid:" + fd["uid"]] = None  # malformed on purpose: no expectation
                else:
                    src["uid:" + fd["uid"]] = [refs[c - 1] for c in (fd.get("citation") or [])]
    by_rec = {rd["id"]: rd for rd in cat["pool"]}
    for e in edits:
        if e["op"] == "edit_citation":
            refs = by_rec[e["rec"]].get("references") or []
            src["uid:" + e["uid"]] = [refs[c - 1] for c in e["citation"]]
    return src


def _content_to_id(cat):
    return {_ref_def_key(r): r["id"] for r in cat.get("refs", [])}


def citations_of_snapshot(cat, snap):
    """uid -> reference ids cited, read off a product snapshot (a kept product is
    the source of the features that a later assembly inherits from it).  A reference
    that cannot be attributed to one catalogue entry leaves the tag without expectation."""
    poss = [possible_ids(cat, r) for r in snap["references"]]
    out = {}
    for f in snap["features"]:
        q = dict((k, v) for k, v in f["qualifiers"])
        notes = [n for n in q.get("note", []) if isinstance(n, str) and n.startswith("uid:")]
        if not notes:
            continue
        got = []
        cit = q.get("citation", []) or []
        for c in (cit if isinstance(cit, (list, tuple)) else [cit]):
            m = _CIT.match(c) if isinstance(c, str) else None
            if m and 1 <= int(m.group(1)) <= len(poss) and len(poss[int(m.group(1)) - 1]) == 1:
                got.append(next(iter(poss[int(m.group(1)) - 1])))
            else:
                got = None
                break
        out[notes[0]] = got
    return out


def _bib_key(full_key):
    """The bibliographic part of a full reference key (title, authors, journal, consortium,
    medline id, pubmed id) - without the remark and the span the entry documents."""
    return tuple(full_key[0][:6])


def possible_ids(cat, canon_ref):
    """Catalogue references a product reference may stand for.  An exact match on everything
    Reference.__eq__ compares gives one id.  A product entry whose span / remark differ from
    every catalogue entry (an implementation may clear or remap the span on the product's own
    copies - it is meaningless in product coordinates) stands for any catalogue entry with the
    same bibliographic fields."""
    key = _ref_content_key(canon_ref)
    if key is None:
        return frozenset()
    c2i = _content_to_id(cat)
    if key in c2i:
        return frozenset([c2i[key]])
    return frozenset(i for k, i in c2i.items() if _bib_key(k) == _bib_key(key))


def check_citations(cat, prod, edits=(), overrides=None):
    """prod: snapshot of the product.  Returns list of (clause, detail).

    C10.target is judged set-wise: every citation value of an inherited feature points to a
    reference its source feature cited, and every reference the source cited is pointed to.
    Order and multiplicity of the values inside one qualifier are left open by the statement."""
    fails = []
    # allowed[uid] = the citation lists a feature with this tag may carry: what its source
    # cites now, or - when the call's inputs are kept products - what each of those products
    # carried for it (two kept products may hold the same tag in different states)
    allowed = {u: ([v] if v is not None else None) for u, v in current_citations(cat, edits).items()}
    for u, lists in (overrides or {}).items():
        allowed[u] = None if any(v is None for v in lists) else list(lists)
    prefs = prod["references"]
    pref_poss = [possible_ids(cat, r) for r in prefs]
    cited = set()

    def matches(got, expected):
        exp = set(expected)
        if not all(p & exp for p in got):
            return False
        return all(any(e in p for p in got) for e in exp)

    for f in prod["features"]:
        q = dict((k, v) for k, v in f["qualifiers"])
        notes = [n for n in q.get("note", []) if isinstance(n, str) and n.startswith("uid:")]
        cit = q.get("citation")
        if cit is None:
            if notes and allowed.get(notes[0]) and [] not in allowed[notes[0]]:
                fails.append(("C10.target", "feature %s lost its citation qualifier (expected %s)" % (notes[0], allowed[notes[0]])))
            continue
        got = []
        ok = True
        for c in (cit if isinstance(cit, (list, tuple)) else [cit]):
            m = _CIT.match(c) if isinstance(c, str) else None
            if m is None:
                fails.append(("C10.form", "citation value %s is not of the form [n]" % _short(c, 80)))
                ok = False
                continue
            k = int(m.group(1))
            if not (1 <= k <= len(prefs)):
                fails.append(("C10.form", "citation [%d] out of range of the product's %d references" % (k, len(prefs))))
                ok = False
                continue
            got.append(pref_poss[k - 1])
        if not ok:
            continue
        if notes and allowed.get(notes[0]) is not None:
            if not any(matches(got, e) for e in allowed[notes[0]]):
                shown = [sorted(p) if len(p) != 1 else next(iter(p)) for p in got]
                fails.append(("C10.target", "feature %s cites %s, its source cited %s" % (notes[0], shown, allowed[notes[0]] if len(allowed[notes[0]]) > 1 else allowed[notes[0]][0])))
            for e in allowed[notes[0]]:
                cited.update(e)
    # each cited reference once: no entry that is unambiguously the same catalogue reference
    # appears twice (entries that cannot be attributed to one catalogue reference are not counted)
    for rid in sorted(cited):
        n = sum(1 for p in pref_poss if p == frozenset([rid]))
        if n > 1:
            fails.append(("C10.once", "reference %s occurs %d times in the product's reference list" % (rid, n)))
    return fails


def strip_product(prod):
    feats = []
    for f in prod["features"]:
        feats.append({"type": f["type"], "id": f["id"], "loc": f["loc"], "qualifiers": [[k, v] for k, v in f["qualifiers"] if k != "citation"]})
    return {"seq": prod["seq"], "features": feats, "id": prod["id"], "name": prod["name"], "type": prod["type"]}


# --------------------------------------------------------------------------
# execute


def _resolve(cat, rd):
    """Catalogue entry whose features/references describe this record."""
    if rd.get("derive"):
        return next((r for r in cat["pool"] if r["id"] == rd["derive"]["from"]), rd)
    return rd


def _has_citations(cat, rec_ids):
    for rd in cat["pool"]:
        if rd["id"] in rec_ids:
            rd = _resolve(cat, rd)
            if rd.get("source"):
                if any(rd.get("cite", {}).values()):
                    return True
            elif any(fd.get("citation") for fd in rd.get("features", [])):
                return True
    return False


def _has_malformed(cat, rec_ids):
    return any(fd.get("citation_raw") for rd in cat["pool"] if rd["id"] in rec_ids for fd in _resolve(cat, rd).get("features", []))


def reference(cat, edits, op, strip=False):
    key = kernel.canon([cat["pool"], cat.get("refs"), [w for w in cat["wrappers"] if w["h"] in [op["vec"]] + list(op["mods"])] if not any(e["op"] == "assemble" for e in edits) else cat["wrappers"], edits, {k: op.get(k) for k in ("vec", "mods", "out_id", "out_name", "warnings")}, strip])
    memo = W.setdefault("ref_memo", {})
    hk = h64(key)
    if hk in memo:
        return memo[hk]
    out = kernel.fork_call(_reference_child, (cat, edits, op, strip), timeout=60, what="reference execution")
    if len(memo) > 2000:
        memo.clear()
    memo[hk] = out
    return out


def execute(case):
    cat = case["catalogue"]
    ops = case["ops"]
    faults = {f["op"]: f for f in case.get("faults", [])}
    observed = kernel.fork_call(_run_child, (case,), timeout=120, what="assembly run")
    wdefs = {wd["h"]: wd for wd in cat["wrappers"]}
    log = kernel.EventLog(keep=False)
    failures = []
    stats, probes = kernel.Counter(), kernel.Counter()
    states = set()
    edits = []
    matched_at = {}  # handle -> True once used in an assemble (its match is cached from then on)
    stale = set()
    rec_of = lambda h: wdefs[h]["rec"] if h in wdefs else None
    prev_kind = "none"
    cited_products = 0
    kept_src, kept_cit = {}, {}
    tainted_products = set()
    for i, (op, ev) in enumerate(zip(ops, observed)):
        k = op["op"]
        out = ev["outcome"]
        stats["ops"] += 1
        stats["op:" + k] += 1
        rec = {"step": i, "id": op.get("id"), "client": op.get("client"), "op": k, "fault": faults.get(op.get("id")), "outcome": kernel.digest_of(out)[:16], "purity": ev["purity"]}
        this_kind = prev_kind
        if k in ("edit_seq", "repair", "edit_annot", "edit_citation"):
            edits.append(op)
            # A wrapper that exists while the caller edits its record may legitimately hold anything
            # it derived from the record before the edit (moclo caches the structure match; an
            # implementation may match eagerly at wrap time, or cache an extracted fragment).  Calls
            # through such a wrapper are judged for purity only, until the client re-wraps.
            related = {op["rec"]} | set(r_["id"] for r_ in cat["pool"] if (r_.get("derive") or {}).get("from") == op["rec"])
            for h, wd in wdefs.items():
                if wd["rec"] in related:
                    stale.add(h)
            probes["edit:" + {"edit_seq": "edit_seq", "repair": "repair", "edit_annot": "annot", "edit_citation": "citation"}[k]] += 1
        elif k == "probe":
            probes["probe:" + op["method"]] += 1
            if op["h"] in wdefs:
                matched_at[op["h"]] = True
        elif k == "rewrap":
            if rec_of(op["h"]) not in tainted_products:
                stale.discard(op["h"])
            matched_at.pop(op["h"], None)
            probes["rewrap"] += 1
        elif k == "assemble" and not (isinstance(out, dict) and out.get("skip")):
            hs = [op["vec"]] + list(op["mods"])
            recs = set(rec_of(h) for h in hs)
            fault = faults.get(op["id"])
            info = ev.get("info") or {}
            fired = bool(info.get("fired"))
            if fault:
                stats["fault_armed:%s" % fault["mode"]] += 1
                stats["fault_armed_exc:%s" % fault["exc"]] += 1
                if fired:
                    stats["fault_fired:%s" % fault["mode"]] += 1
                    stats["fault_fired_exc:%s" % fault["exc"]] += 1
                    if fault["mode"] == "boundary":
                        stats["fault_fired_at:%s:%s" % (info["fired"].split("#")[0].split(".")[-1], fault["when"])] += 1
                    else:
                        stats["fault_fired_in:%s" % info["fired"].split(":")[0]] += 1
            kind = "product" if "product" in out else out.get("exc", "?")
            if fired:
                kind = "injected:" + kind
            this_kind = kind
            stats["assemble:" + kind] += 1
            cit = _has_citations(cat, recs) or any(kept_cit.get(r) for r in recs)
            malformed = _has_malformed(cat, recs)
            # Two inputs of ONE call that share their citation list objects (a record and the record
            # derived from it with `>>`) are outside C10's input space (section 3.3: citation lists
            # are not aliased between the features of one call); such a call is judged for purity
            # and refinement only.  (A module and its twin stop at DuplicateModules unless one of the two
            # has its origin inside an overhang, where moclo's group extraction returns the two halves in
            # the wrong order - an observation about C02/C16, which are not claimed here; the vector and
            # its rotation handed in as a module, scenario `vec_twin`, get past map-building regularly.)
            if any((rd_.get("derive") or {}).get("from") in recs for rd_ in cat["pool"] if rd_["id"] in recs):
                malformed = True
                probes["call-with-a-record-and-its-rotation"] += 1
            overrides = {}
            for r in recs:
                if r in kept_src:
                    for u, v in kept_src[r].items():
                        overrides.setdefault(u, []).append(v)
                    probes["product-reused-as-input"] += 1
            if malformed:
                probes["assemble-with-malformed-citation"] += 1
            if cit:
                probes["assemble-with-citations"] += 1
            if any(rd.get("derive") for rd in cat["pool"] if rd["id"] in recs):
                probes["input-derived-by-rotation-shares-qualifiers"] += 1
            if sum(1 for rd in cat["pool"] if rd["id"] in recs and rd.get("rec_id")) >= 2:
                probes["inputs-sharing-an-id-string"] += 1
            if any(rd.get("origin_on_fragment_start") for rd in cat["pool"] if rd["id"] in recs):
                probes["input-origin-on-fragment-start"] += 1
            if any(len(set(rd.get("references") or [])) < len(rd.get("references") or []) for rd in cat["pool"] if rd["id"] in recs):
                probes["assemble-with-duplicate-reference-in-one-record"] += 1
            if len(set(op["mods"])) < len(op["mods"]):
                probes["same-instance-twice"] += 1
            if len(set(rec_of(h) for h in op["mods"])) < len(set(op["mods"])):
                probes["two-wrappers-one-record"] += 1
            if out.get("warnings"):
                probes["unused-modules-warning"] += 1
            if kind == "UnusedModules":
                probes["unused-modules-raised-as-error"] += 1
            if kind == "MissingModule":
                j = sum(1 for t in (info.get("trace") or []) if t.endswith("target_sequence")) if info else None
                probes["missing-module"] += 1
            used_stale = any(h in stale for h in hs)
            stats["assemblies"] += 1
            if used_stale:
                probes["stale-wrapper-used"] += 1
                stats["assemblies_through_stale_wrappers"] += 1
            states.add(h64("as", prev_kind, kind, cit, bool(fault), len(op["mods"])) & ((1 << 48) - 1))
            # --- purity is evaluated below for every op
            # --- refinement against the pristine reference (fault did not fire, no stale wrapper)
            if not fired and not used_stale:
                ref = reference(cat, list(edits), op)
                stats["reference_executions"] += 1
                if prev_kind not in ("none", "product"):
                    probes["refinement-after-failure"] += 1
                    if prev_kind.startswith("injected:"):
                        probes["refinement-after-injected-fault"] += 1
                if ref != out:
                    d = first_difference(ref, out)
                    clause = "C07.recovery" if prev_kind.startswith("injected:") else "C07.refinement"
                    failures.append({"property": "C07", "clause": clause, "op": i, "op_id": op.get("id"), "signature": "after:%s" % prev_kind.split(":")[-1] if not prev_kind.startswith("injected") else "after:injected",
                                     "expected": _short(d[1]), "observed": _short(d[2]), "detail": "differs from the first-call-on-fresh-copies reference at %s" % d[0]})
                rec["reference"] = kernel.digest_of(ref)[:16]
            # --- C10 on every returned product
            if "product" in out and op["vec"] == "w:V2":
                probes["level2-product"] += 1
            if "product" in out and case.get("scenario", {}).get("kit"):
                probes["kit-scenario-product:" + str(cat["pool"][0]["id"])] += 1
            if "product" in out:
                prod = out["product"]
                if cit:
                    cited_products += 1
                    probes["product-with-cited-inputs"] += 1
                    if any(k2 == "citation" for f in prod["features"] for k2, _ in f["qualifiers"]):
                        probes["product-carries-citation"] += 1
                    if any(k2 == "citation" for f in prod["features"] if any(k3 == "note" and any(str(n).startswith("uid:") for n in v3) for k3, v3 in f["qualifiers"]) for k2, _ in f["qualifiers"]):
                        probes["tagged-cited-feature-traced-into-product"] += 1
                for clause, detail in ([] if malformed or used_stale else check_citations(cat, prod, edits, overrides)):
                    failures.append({"property": "C10", "clause": clause, "op": i, "op_id": op.get("id"), "signature": clause.split(".")[1], "expected": None, "observed": None, "detail": detail})
                if not fired and not used_stale and cit and not malformed:
                    sref = reference(cat, list(edits), op, strip=True)
                    stats["stripped_reference_executions"] += 1
                    if "product" not in sref:
                        failures.append({"property": "C10", "clause": "C10.same-as-without", "op": i, "op_id": op.get("id"), "signature": "product-vs-%s" % sref.get("exc"), "expected": _short(sref), "observed": "product", "detail": "inputs with citations assemble, the same inputs without raise"})
                    elif strip_product(sref["product"]) != strip_product(prod):
                        d = first_difference(strip_product(sref["product"]), strip_product(prod))
                        failures.append({"property": "C10", "clause": "C10.same-as-without", "op": i, "op_id": op.get("id"), "signature": "product-differs", "expected": _short(d[1]), "observed": _short(d[2]), "detail": "product differs from the citation-free assembly at %s" % d[0]})
            elif not fired and not used_stale and cit and not malformed:
                sref = reference(cat, list(edits), op, strip=True)
                stats["stripped_reference_executions"] += 1
                if "product" in sref or sref.get("exc") != out.get("exc"):
                    failures.append({"property": "C10", "clause": "C10.same-as-without", "op": i, "op_id": op.get("id"), "signature": "%s-vs-%s" % (out.get("exc"), "product" if "product" in sref else sref.get("exc")), "expected": _short(sref, 120), "observed": _short(out, 120), "detail": "records with citations do not assemble like records without them"})
            for h in hs:
                matched_at[h] = True
            if op.get("keep") and ev.get("kept") and "product" in out:
                rid = op["keep"]
                wdefs["w:" + rid] = {"h": "w:" + rid, "cls": op["keep_cls"], "rec": rid}
                kept_src[rid] = citations_of_snapshot(cat, out["product"])
                kept_cit[rid] = cit
                matched_at.pop("w:" + rid, None)
                if used_stale or malformed:
                    # made through wrappers that may hold pre-edit state: the reference re-creates it
                    # with fresh wrappers, so nothing built on it is compared
                    stale.add("w:" + rid)
                    tainted_products.add(rid)
                else:
                    stale.discard("w:" + rid)
                    tainted_products.discard(rid)
                edits.append({k2: v2 for k2, v2 in op.items() if k2 not in ("id", "client")})
                probes["product-kept"] += 1
        if ev["purity"] and k != "assemble":
            # the statement is about assemblies; a record that changed during a direct call on a
            # wrapper or a re-wrap is only counted (the run child has already re-baselined it)
            probes["input-changed-outside-an-assembly:" + k] += 1
        elif ev["purity"] and not [d_ for d_ in ev["purity"] if d_["rec"] in set(rec_of(h_) for h_ in [op["vec"]] + list(op["mods"]))]:
            # "every vector and module record passed to it": a bystander of the pool that changed
            # (it can share objects with an input) is counted, not reported
            probes["bystander-record-changed"] += 1
        elif ev["purity"]:
            ev["purity"] = [d_ for d_ in ev["purity"] if d_["rec"] in set(rec_of(h_) for h_ in [op["vec"]] + list(op["mods"]))]
            d0 = ev["purity"][0]
            on = this_kind if k == "assemble" else k
            failures.append({"property": "C07", "clause": "C07.purity", "op": i, "op_id": op.get("id"), "signature": "on:%s" % on.split(":")[0] if not str(on).startswith("injected") else "on:injected",
                             "expected": d0["before"], "observed": d0["after"], "detail": "record %s changed at %s (%d record(s) changed)" % (d0["rec"], d0["path"], len(ev["purity"]))})
            if k == "assemble" and isinstance(out, dict) and not out.get("skip") and any(d.get("citation_data") for d in ev["purity"]):
                failures.append({"property": "C10", "clause": "C10.inputs", "op": i, "op_id": op.get("id"), "signature": "inputs", "expected": d0["before"], "observed": d0["after"], "detail": "input %s citation data changed at %s" % (d0["rec"], d0["path"])})
        if k == "assemble":
            prev_kind = this_kind
        log.append(rec)
    cp = case.get("crash_points")
    if cp:
        mode = "boundary" if case.get("spec", {}).get("mode") == "enumerate" else "line"
        lo, hi = cp["slice"]
        per = 2 if mode == "boundary" else 1
        stats["crash_points_enumerated:" + mode] += max(0, hi - lo)
        if lo == 0:
            stats["crash_point_scenarios:" + mode] += 1
            stats["crash_points_possible:" + mode] += cp["possible"]
            stats["crash_point_scenario_dry_outcome:%s" % cp["dry_outcome"]] += 1
    nontrivial = {
        "C07": bool(stats.get("fault_fired:boundary", 0) + stats.get("fault_fired:line", 0) + probes.get("refinement-after-failure", 0) + probes.get("missing-module", 0)) and bool(probes.get("assemble-with-citations", 0)),
        "C10": probes.get("product-carries-citation", 0) > 0,
    }
    return {
        "digest": log.digest(), "failures": [f_ for f_ in failures if f_["property"] == "C07"][:8] + [f_ for f_ in failures if f_["property"] == "C10"][:8], "n_failures": len(failures), "stats": dict(stats), "probes": dict(probes),
        "states": sorted(states), "nontrivial": nontrivial, "steps": len(ops),
        "schedule": h64("sched", tuple(op.get("client") for op in ops)) & ((1 << 48) - 1),
    }


# --------------------------------------------------------------------------
# scenario generation (pure)


def _gen_features(g, rid, n, seg, n_refs, uid_prefix):
    """Feature dicts on the unrotated sequence: inside / outside / straddling
    the retained fragment, both strands, some compound."""
    feats = []
    a, b = seg["retained"]
    c, d = seg["discarded"]

    def span(lo, hi, minlen=1):
        if hi - lo < minlen:
            return None
        s = g.randint(lo, hi - minlen)
        e = g.randint(s + minlen, hi)
        return s, e

    kinds = ["inside", "inside", "inside", "outside", "straddle", "compound", "inside-rev"]
    for j in range(g.randint(1, 5)):
        kind = g.choice(kinds)
        parts = None
        if kind in ("inside", "inside-rev"):
            sp = span(a, b)
            if sp:
                parts = [[sp[0], sp[1], -1 if kind == "inside-rev" else 1]]
        elif kind == "outside":
            sp = span(c, d)
            if sp:
                parts = [[sp[0], sp[1], g.choice([1, -1])]]
        elif kind == "straddle":
            if a >= 2:
                parts = [[g.randint(max(0, a - 6), a - 1), g.randint(a + 1, min(b, a + 8)), 1]]
        elif kind == "compound":
            if b - a >= 6:
                m = (a + b) // 2
                s1, s2 = span(a, m), span(m, b)
                if s1 and s2 and s1[1] < s2[0]:
                    parts = [[s1[0], s1[1], 1], [s2[0], s2[1], 1]]
        if not parts:
            continue
        cites = []
        if n_refs and g.random() < 0.7:
            cites = sorted(g.sample(range(1, n_refs + 1), g.randint(1, min(n_refs, 3))))
            if g.random() < 0.3:
                g.shuffle(cites)
        feats.append({"uid": "%s.f%d" % (uid_prefix, j), "type": g.choice(["misc_feature", "CDS", "promoter", "terminator"]), "parts": parts,
                      "qualifiers": {"label": ["%s-%d" % (rid, j)]}, "citation": cites or None, "kind": kind})
    return feats


def _rotate_record(g, rd, seg=None):
    """Rotate sequence + feature coordinates so that the structure may span the
    origin while no feature does.  Some records get their origin exactly on the
    first nucleotide of the retained fragment (the rotation moclo performs to
    extract it is then the identity)."""
    n = len(rd["seq"])
    blocked = set()
    for f in rd["features"]:
        lo = min(p[0] for p in f["parts"])
        hi = max(p[1] for p in f["parts"])
        blocked.update(range(lo + 1, hi))
    free = [x for x in range(n) if x not in blocked]
    if not free or g.random() < 0.3:
        return rd
    o = g.choice(free)
    if seg is not None and seg["retained"][0] in free and g.random() < 0.2:
        o = seg["retained"][0]
        rd["origin_on_fragment_start"] = True
    rd["seq"] = rd["seq"][o:] + rd["seq"][:o]
    if rd.get("broken_seq"):
        rd["broken_seq"] = rd["broken_seq"][o:] + rd["broken_seq"][:o]
    for f in rd["features"]:
        for p in f["parts"]:
            ln = p[1] - p[0]
            p[0] = (p[0] - o) % n
            p[1] = p[0] + ln
    rd["rotated_by"] = o
    return rd


def _break_site(seq, site):
    i = seq.find(site)
    if i < 0:
        i = (seq + seq).find(site) % len(seq)
    j = (i + 2) % len(seq)
    return seq[:j] + ("A" if seq[j] != "A" else "C") + seq[j + 1:]


def gen_scenario(g, kind=None):
    """One shared pool: vectors, a complete chain and the ingredients of every
    natural failure class, with references and citations."""
    cutter = g.choice(CUTTERS)
    geom = dna.geometry(cutter)
    two_level = kind == "two-level"
    geom2 = None
    if two_level:
        # a second enzyme with another recognition site for the next level
        cutter2 = g.choice([c for c in CUTTERS if dna.geometry(c)["site"] != geom["site"]])
        geom2 = dna.geometry(cutter2)
    other_sites = (geom2["site"],) if two_level else ()
    n = g.choice([1, 2, 2, 3, 3, 4, 5, 7]) if kind not in ("small", "two-level") else g.choice([1, 2, 3])
    ovs = dna.overhangs(g, geom["ov"], n + 3)
    chain, extra = ovs[: n + 1], ovs[n + 1:]
    # references
    n_refs_total = g.randint(0, 5)
    refs = [{"id": "R%d" % i, "title": "Title %d of the simulated literature" % i, "authors": "Author%d A." % i, "shared_object": g.random() < 0.5} for i in range(n_refs_total)]
    if n_refs_total >= 2 and g.random() < 0.3:
        # distinct references sharing a title (GenBank's "Direct Submission" entries)
        for r in g.sample(refs, 2):
            r["title"] = "Direct Submission"
    if n_refs_total >= 2 and g.random() < 0.25:
        # the same paper entered twice, told apart only by the span it documents and/or a remark
        # (GenBank: REFERENCE 1 (bases 1 to 40) / REFERENCE 2 (bases 41 to 80))
        a_, b_ = g.sample(refs, 2)
        for k_ in ("title", "authors"):
            b_[k_] = a_[k_]
        a_["journal"] = b_["journal"] = "J. Sim. twin"
        if g.random() < 0.7:
            a_["location"], b_["location"] = [0, 40], [41, 80]
        else:
            b_["comment"] = "second entry"
    dup_refs = g.random() < 0.15       # one record lists the same reference twice
    malformed = g.random() < 0.06      # one feature carries a dangling / malformed citation
    pool, wrappers = [], []
    lvl = g.choice(["Entry", "Cassette"]) if not two_level else "Entry"
    mcls, vcls = "gen:%s:%s" % (lvl, cutter), "gen:%sVector:%s" % (lvl, cutter)

    def ref_list():
        if not refs or g.random() < 0.2:
            return None if g.random() < 0.6 else []
        k = g.randint(1, min(3, len(refs)))
        return [r["id"] for r in g.sample(refs, k)]

    def add(rid, role, seq, seg, cls, broken_site=True):
        rl = ref_list()
        if dup_refs and rl and g.random() < 0.5:
            rl = rl + [g.choice(rl)]
        rd = {"id": rid, "role": role, "seq": seq, "topology": "circular" if g.random() < 0.85 else None, "references": rl, "name": rid, "description": "synthetic %s %s" % (role, rid),
              "dbxrefs": ["SIM:%s" % rid] if g.random() < 0.3 else [], "features": _gen_features(g, rid, len(seq), seg, len(rl or []), rid)}
        if g.random() < 0.2:
            rd["annotations"] = {"keywords": ["kw-" + rid], "organism": "synthetic"}
        if malformed and rd["features"] and not any(f.get("citation_raw") for r_ in pool for f in r_.get("features", [])) and g.random() < 0.4:
            f_ = g.choice(rd["features"])
            f_["citation"] = None
            f_["citation_raw"] = g.choice([["[%d]" % (len(rl or []) + 3)], ["7"], ["[x]"], ["[1]", "[%d]" % (len(rl or []) + 2)] if rl else ["[2]"]])
        rd["broken_seq"] = _break_site(seq, geom["site"])
        _rotate_record(g, rd, seg)
        pool.append(rd)
        wrappers.append({"h": "w:" + rid, "cls": cls, "rec": rid})
        return rd

    level2 = None
    if two_level:
        a2 = dna.overhangs(g, geom2["ov"], 3)
        seq, seg = dna.make_vector2(g, geom, chain[0], chain[-1], geom2, a2[0], a2[1], g.randint(4, 30), g.randint(20, 80))
        add("V0", "vector", seq, seg, vcls)
        seq, seg = dna.make_vector2(g, geom, chain[0], chain[-1], geom2, a2[1], a2[2], g.randint(4, 30), g.randint(20, 80))
        add("VB", "vector", seq, seg, vcls)
        seq, seg = dna.make_vector(g, geom2, a2[0], a2[2], g.randint(4, 30), g.randint(20, 80), all_sites=(geom["site"],))
        rd2 = add("V2", "vector", seq, seg, "gen:CassetteVector:%s" % geom2["name"])
        rd2["broken_seq"] = _break_site(rd2["seq"], geom2["site"])
        level2 = {"vec": "w:V2", "mod_cls": "gen:Cassette:%s" % geom2["name"], "makers": [["P1", "w:V0"], ["P2", "w:VB"]], "alts": {}}
    else:
        seq, seg = dna.make_vector(g, geom, chain[0], chain[-1], g.randint(4, 30), g.randint(20, 120))
        add("V0", "vector", seq, seg, vcls)
    for i in range(n):
        seq, seg = dna.make_module(g, geom, chain[i], chain[i + 1], g.randint(2, 60), g.randint(10, 80), all_sites=other_sites)
        add("M%d" % i, "module", seq, seg, mcls)
        if two_level:
            # an interchangeable part for the same position, with its own features and references,
            # so that two kept products differ in what they cite
            seq, seg = dna.make_module(g, geom, chain[i], chain[i + 1], g.randint(2, 40), g.randint(10, 60), all_sites=other_sites)
            add("A%d" % i, "module", seq, seg, mcls)
            level2["alts"]["w:M%d" % i] = "w:A%d" % i
    extras = []
    if g.random() < 0.6:  # duplicate start overhang
        i = g.randrange(n)
        seq, seg = dna.make_module(g, geom, chain[i], chain[i + 1] if g.random() < 0.5 else extra[0], g.randint(2, 30), g.randint(10, 40), all_sites=other_sites)
        add("D%d" % i, "module", seq, seg, mcls)
        extras.append("w:D%d" % i)
    if g.random() < 0.4:  # reverse-complement start overhang
        i = g.randrange(n)
        seq, seg = dna.make_module(g, geom, dna.rc(chain[i]), extra[1], g.randint(2, 30), g.randint(10, 40))
        add("X%d" % i, "module", seq, seg, mcls)
        extras.append("w:X%d" % i)
    if g.random() < 0.6:  # orphan (unused)
        seq, seg = dna.make_module(g, geom, extra[0], extra[1], g.randint(2, 30), g.randint(10, 40), all_sites=other_sites)
        add("O0", "module", seq, seg, mcls)
        extras.append("w:O0")
    if g.random() < 0.3:  # vector whose overhangs coincide
        seq, seg = dna.make_vector(g, geom, chain[0], chain[0], g.randint(4, 20), g.randint(20, 60))
        add("V1", "vector", seq, seg, vcls)
    if g.random() < 0.3:  # module with a broken site from the start
        seq, seg = dna.make_module(g, geom, extra[0], extra[1], g.randint(2, 20), g.randint(10, 40))
        rd = add("B0", "module", seq, seg, mcls)
        rd["seq"], rd["broken_seq"] = rd["broken_seq"], rd["seq"]
        extras.append("w:B0")
    if g.random() < 0.12 and n >= 2:
        # distinct records carrying the same id string (products of earlier assemblies made
        # without id= are all called "assembly"; record ids are labels, not keys)
        for rd in g.sample([r for r in pool if r["role"] == "module"], 2) + ([pool[0]] if g.random() < 0.3 else []):
            rd["rec_id"] = "assembly"
    twins = {}
    if g.random() < 0.2:
        for i in g.sample(range(n), g.randint(1, min(2, n))):
            src = next(r for r in pool if r["id"] == "M%d" % i)
            k = g.randrange(1, len(src["seq"]))
            pool.append({"id": "T%d" % i, "role": "module", "derive": {"from": "M%d" % i, "op": "rshift", "k": k}})
            wrappers.append({"h": "w:T%d" % i, "cls": mcls, "rec": "T%d" % i})
            twins["w:M%d" % i] = "w:T%d" % i
    if g.random() < 0.25:  # second wrapper on an existing record
        i = g.randrange(n)
        wrappers.append({"h": "w2:M%d" % i, "cls": mcls, "rec": "M%d" % i})
    vec_twin = None
    if not two_level and g.random() < 0.12:
        # the vector plasmid, rotated by the caller with `>>`, handed in as a *module* of the same call (a
        # two-site plasmid reads as a module the other way round): the vector and this module are distinct
        # records that share their qualifier dictionaries, and nothing stops the call at map-building
        src = next(r for r in pool if r["id"] == "V0")
        pool.append({"id": "TV0", "role": "module", "derive": {"from": "V0", "op": "rshift", "k": g.randrange(1, len(src["seq"]))}})
        wrappers.append({"h": "w:TV0", "cls": mcls, "rec": "TV0"})
        vec_twin = "w:TV0"
    return {"cutter": cutter, "refs": refs, "pool": pool, "wrappers": wrappers, "chain": ["w:M%d" % i for i in range(n)], "extras": extras, "n": n, "level2": level2, "twins": twins, "vec_twin": vec_twin}


def _cidar_cls(stem):
    s = stem.split("/")[1]
    if s.startswith("BCD") or s.startswith("B003"):
        return "kit:cidar.CIDARRibosomeBindingSite"
    if s.startswith("B0015"):
        return "kit:cidar.CIDARTerminator"
    if s.startswith("DV"):
        return "kit:cidar.CIDARCassetteVector"
    if s[0] in "JRI":
        return "kit:cidar.CIDARPromoter"
    return "kit:cidar.CIDARCodingSequence"


def _c(*stems):
    return [("cidar/" + s, _cidar_cls("cidar/" + s)) for s in stems]


def _y(*pairs):
    return [("ytk/pYTK%03d" % n, "kit:ytk.YTKPart" + t) for n, t in pairs]


# (vector, chain, alternates): real kit plasmids from the registry sources
KIT_SCENARIOS = [
    (_c("DVK_AE")[0], _c("J23102_AB", "BCD2_BC", "E1010m_CD", "B0015_DE"), _c("J23100_AB", "B0015_DF", "E0040m_CD")),
    (_c("DVK_EF")[0], _c("J23102_EB", "BCD2_BC", "E1010m_CD", "B0015_DF"), _c("J23106_EB", "B0015_DE", "C0040_CD")),
    (_y((83, "8"))[0], _y((2, "1"), (9, "2"), (33, "3"), (51, "4"), (67, "5"), (74, "6"), (81, "7")), _y((3, "1"), (10, "2"), (52, "4"))),
    (_y((95, "678"))[0], _y((2, "1"), (48, "234"), (67, "5")), _y((9, "2"), (68, "5"))),
]


def gen_kit_scenario(g):
    import Bio.SeqIO

    (vec, vcls), mods, alts = g.choice(KIT_SCENARIOS)
    n_refs_total = g.randint(1, 4)
    refs = [{"id": "R%d" % i, "title": "Kit literature %d" % i, "authors": "Kit%d K." % i, "shared_object": g.random() < 0.5} for i in range(n_refs_total)]
    pool, wrappers = [], []
    use_alts = [a for a in alts if g.random() < 0.5]
    for src, cls in [(vec, vcls)] + mods + use_alts:
        rid = src.split("/")[1]
        nfeat = W.setdefault("kit_nfeat", {})
        if src not in nfeat:
            nfeat[src] = len(Bio.SeqIO.read(W["kit_gb"][src], "gb").features)
        rl = [r["id"] for r in g.sample(refs, g.randint(1, len(refs)))] if g.random() < 0.8 else None
        cite = {}
        if rl:
            for fi in g.sample(range(nfeat[src]), min(nfeat[src], g.randint(1, 6))):
                cite[str(fi)] = sorted(g.sample(range(1, len(rl) + 1), g.randint(1, min(2, len(rl)))))
        else:
            for fi in g.sample(range(nfeat[src]), min(nfeat[src], 3)):
                cite[str(fi)] = []
        pool.append({"id": rid, "role": "vector" if src == vec else "module", "source": src, "references": rl, "cite": cite})
        wrappers.append({"h": "w:" + rid, "cls": cls, "rec": rid})
    return {"cutter": "BsaI", "refs": refs, "pool": pool, "wrappers": wrappers, "chain": ["w:" + m.split("/")[1] for m, _ in mods], "extras": ["w:" + a.split("/")[1] for a, _ in use_alts], "n": len(mods), "kit": True,
            "vec": "w:" + vec.split("/")[1]}


def _gen_call(g, sc, i):
    """One assemble call over the scenario: mostly the complete chain, sometimes
    with the ingredients of a natural failure."""
    chain = [sc.get("twins", {}).get(m_, m_) if g.random() < 0.5 else m_ for m_ in sc["chain"]]
    mods = list(chain)
    x = g.random()
    vec = sc.get("vec", "w:V0")
    if sc.get("level2") and g.random() < 0.5:
        vec = "w:VB"
    if x < 0.15 and len(mods) > 1:
        mods.pop(g.randrange(len(mods)))  # gap after j consumed modules
    elif x < 0.35 and sc["extras"]:
        mods.append(g.choice(sc["extras"]))
    elif x < 0.42:
        mods.append(g.choice(mods))  # same instance twice
    elif x < 0.50:
        w2 = [w["h"] for w in sc["wrappers"] if w["h"].startswith("w2:")]
        if w2:
            mods.append(g.choice(w2))
    elif x < 0.55 and any(w["h"] == "w:V1" for w in sc["wrappers"]):
        vec = "w:V1"
    elif x < 0.60 and sc["extras"]:
        mods = g.sample(chain + sc["extras"], g.randint(1, len(chain)))
    if sc.get("vec_twin") and vec == "w:V0" and g.random() < 0.5:
        y = g.random()
        base_ = list(sc["chain"])
        if y < 0.3:
            mods = [sc["vec_twin"]]
        elif y < 0.55:
            mods = base_ + [sc["vec_twin"]]
        elif y < 0.8:
            mods = base_[1:] + [sc["vec_twin"]]
        else:
            mods = base_[:-1] + [sc["vec_twin"]]
    g.shuffle(mods)
    call = {"op": "assemble", "vec": vec, "mods": mods, "out_id": "prod%d" % i, "out_name": "prod%d" % i}
    if g.random() < 0.12:
        call["warnings"] = "error"
    return call


def dry_run(case, op_index):
    key = h64(kernel.canon([case["catalogue"]["pool"], case["catalogue"]["wrappers"], [o for o in case["ops"][:op_index] if o["op"].startswith(("edit", "repair"))], {k: case["ops"][op_index].get(k) for k in ("vec", "mods", "warnings")}]))
    memo = W["dry_memo"]
    if key not in memo:
        memo[key] = kernel.fork_call(_dry_child, (case, op_index), timeout=60, what="dry run")
    return memo[key]


def gen_case(spec):
    seed = spec["seed"]
    g = stream(seed, "gen")
    sch = stream(seed, "sched")
    fl = stream(seed, "fault")
    mode = spec.get("mode", "random")
    kit = mode == "kit" or (mode == "random" and g.random() < 0.08)
    two = (not kit) and mode == "random" and g.random() < 0.18
    sc = gen_kit_scenario(g) if kit else gen_scenario(g, "small" if mode in ("enumerate", "lines") else ("two-level" if two else None))
    cat = {"cutter": sc["cutter"], "refs": sc["refs"], "pool": sc["pool"], "wrappers": sc["wrappers"]}
    ops, faults = [], []

    def add(client, op):
        op["id"] = len(ops)
        op["client"] = client
        ops.append(op)
        return op

    case = {"format": 1, "world": "assembly", "run_seed": seed, "spec": {k: v for k, v in spec.items() if k != "seed"}, "catalogue": cat, "ops": ops, "faults": faults,
            "scenario": {"chain": sc["chain"], "extras": sc["extras"], "n": sc["n"], "kit": bool(sc.get("kit"))}}
    if mode in ("enumerate", "lines"):
        # bounded crash testing: one sampled call, every crash point of it
        call = _gen_call(g, sc, 0)
        if spec.get("complete", True):
            call["mods"] = list(sc["chain"])
            call["vec"] = sc.get("vec", "w:V0")
            g.shuffle(call["mods"])
        add(0, dict(call))
        dry = dry_run(case, 0)
        if mode == "enumerate":
            points = [(k, when) for k in range(dry["calls"]) for when in ("before", "after")]
        else:
            total = dry["lines"]
            points = [(n_, None) for n_ in range(total)]
            budget = spec.get("budget")
            if budget and total > budget:
                # strided sample over the WHOLE extent (all extractions, the vector's included)
                stride = -(-total // budget)
                points = points[spec.get("phase", 0) % stride::stride]
        lo, hi = spec.get("slice", [0, 40])
        case["crash_points"] = {"possible": dry["calls"] * 2 if mode == "enumerate" else dry["lines"], "selected": len(points), "slice": [lo, min(hi, len(points))], "calls": dry["calls"], "lines": dry["lines"], "dry_outcome": dry["outcome"]}
        for j, (k, when) in enumerate(points[lo:hi]):
            c = add(j % 2, dict(call, out_id="prod%d" % (j + 1)))
            exc = EXC_KINDS[(lo + j) % len(EXC_KINDS)]
            if mode == "enumerate":
                faults.append({"op": c["id"], "mode": "boundary", "call": k, "when": when, "exc": exc})
            else:
                faults.append({"op": c["id"], "mode": "line", "n": k, "exc": exc})
            if j % 5 == 4:
                add((j + 1) % 2, dict(call, out_id="clean%d" % j))
        add(0, dict(call, out_id="final"))
        return case
    # random histories: 1-3 clients sharing the pool
    n_clients = g.choice([1, 2, 2, 3])
    n_ops = g.randint(4, 36)
    fault_rate = g.choice([0.0, 0.0, 0.15, 0.3, 0.5]) if not spec.get("fault_free") else 0.0
    enabled_exc = g.sample(EXC_KINDS, g.randint(1, len(EXC_KINDS)))
    def rewrap_after(client, rec_id):
        # a caller who edited a record usually wraps it again before the next call
        if g.random() < 0.7:
            related = {rec_id} | set(r_["id"] for r_ in cat["pool"] if (r_.get("derive") or {}).get("from") == rec_id)
            for w_ in cat["wrappers"]:
                if w_["rec"] in related:
                    add(client, {"op": "rewrap", "h": w_["h"]})

    broken = set()
    mod_recs = [r["id"] for r in cat["pool"] if not r.get("source") and not r.get("derive") and r.get("broken_seq")]
    lv2 = sc.get("level2")
    guard = 0
    while len(ops) < n_ops and guard < 40 * n_ops:
        guard += 1
        client = sch.randrange(n_clients)
        x = g.random()
        if lv2 and x < 0.16:
            # keep a product for the next level (never faulted: it becomes part of the shared pool)
            pid, vec = g.choice(lv2["makers"])
            mods = [lv2["alts"].get(m_, m_) if g.random() < 0.5 else m_ for m_ in sc["chain"]]
            g.shuffle(mods)
            for h_ in [vec] + mods:
                add(client, {"op": "rewrap", "h": h_})   # the client builds the next level from freshly wrapped records
            call = {"op": "assemble", "vec": vec, "mods": mods, "out_name": pid, "keep": pid, "keep_cls": lv2["mod_cls"]}
            if g.random() < 0.7:
                call["out_id"] = pid      # otherwise the default id "assembly" (shared by all such products)
            add(client, call)
            continue
        if lv2 and x < 0.34:
            mods = g.choice([["w:P1", "w:P2"], ["w:P2", "w:P1"], ["w:P1", "w:P2"], ["w:P1"], ["w:P2"], ["w:P1", "w:P1", "w:P2"]])
            op = add(client, {"op": "assemble", "vec": lv2["vec"], "mods": mods, "out_id": "dev%d" % len(ops), "out_name": "dev%d" % len(ops)})
            if fl.random() < fault_rate:
                faults.append({"op": op["id"], "mode": "boundary", "call": fl.randrange(0, 14), "when": fl.choice(["before", "after"]), "exc": fl.choice(enabled_exc)})
            continue
        if lv2 and 0.72 <= x < 0.80:
            continue  # no sequence edits in two-level runs (kept products must be reproducible with fresh wrappers)
        if x < 0.72:
            op = add(client, _gen_call(g, sc, len(ops)))
            if fl.random() < fault_rate:
                if fl.random() < 0.75:
                    faults.append({"op": op["id"], "mode": "boundary", "call": fl.randrange(0, 6 + 4 * sc["n"]), "when": fl.choice(["before", "after"]), "exc": fl.choice(enabled_exc)})
                else:
                    faults.append({"op": op["id"], "mode": "line", "n": fl.randrange(0, 60 * (sc["n"] + 1)), "exc": fl.choice(enabled_exc)})
        elif x < 0.80 and mod_recs:
            r = g.choice(mod_recs)
            if r in broken:
                add(client, {"op": "repair", "rec": r})
                broken.discard(r)
            else:
                add(client, {"op": "edit_seq", "rec": r})
                broken.add(r)
            rewrap_after(client, r)
        elif x < 0.85:
            r = g.choice([r_ for r_ in cat["pool"] if not r_.get("derive")])["id"]
            add(client, {"op": "edit_annot", "rec": r, "what": g.choice(["description", "qualifier", "annotation"]), "feature": g.randrange(8), "value": "edit-%d" % len(ops)})
            rewrap_after(client, r)
        elif x < 0.89:
            # (records that have a rotation-derived twin keep their citations: the twin holds a shallow
            # copy of each qualifier dictionary, so what an edit of the original means for the twin
            # depends on whether the caller rebinds or mutates the list - not something to model)
            has_twin = set((r_.get("derive") or {}).get("from") for r_ in cat["pool"])
            cands = [(rd, fd) for rd in cat["pool"] if not rd.get("source") and not rd.get("derive") and rd["id"] not in has_twin and rd.get("references") for fd in rd["features"] if not fd.get("citation_raw")]
            if cands:
                rd, fd = g.choice(cands)
                uncited = [c_ for c_ in cands if not c_[1].get("citation")]
                adding = bool(uncited) and g.random() < 0.5
                if adding:
                    rd, fd = g.choice(uncited)   # a feature that cited nothing starts citing
                nref = len(rd["references"])
                add(client, {"op": "edit_citation", "rec": rd["id"], "uid": fd["uid"], "citation": sorted(g.sample(range(1, nref + 1), g.randint(1 if adding else 0, min(2, nref)))), "in_place": g.random() < 0.5})
                if g.random() < 0.6:
                    rewrap_after(client, rd["id"])
        elif x < 0.94:
            add(client, {"op": "probe", "h": g.choice(cat["wrappers"])["h"], "method": g.choice(["target_sequence", "target_sequence", "overhang_start", "overhang_end", "is_valid"])})
        elif x < 0.97:
            add(client, {"op": "rewrap", "h": g.choice(cat["wrappers"])["h"]})
        elif broken:
            r = sorted(broken)[0]
            add(client, {"op": "repair", "rec": r})
            broken.discard(r)
    return case


# --------------------------------------------------------------------------
# plan


def plan(tier, verif_seed, scale=1.0):
    specs = []
    if tier == "quick":
        n_enum, n_lines, n_random, n_kit, n_ff = 60, 20, 800, 50, 150
    else:
        n_enum, n_lines, n_random, n_kit, n_ff = 2000, 300, 24000, 600, 6000
    counts = [("enumerate", n_enum), ("lines", n_lines), ("random", n_random), ("kit", n_kit), ("fault_free", n_ff)]
    idx = 0
    for mode, cnt in counts:
        for j in range(max(1, int(cnt * scale))):
            sd = kernel.run_seed(verif_seed, "C07C10", tier, idx)
            if mode == "fault_free":
                specs.append({"index": idx, "seed": sd, "mode": "random", "fault_free": True})
            elif mode in ("enumerate", "lines"):
                # one scenario, sliced into runs of <=40 crash points; slices beyond the
                # crash-point count degenerate to clean calls and cost little
                n_slices = 2 if mode == "enumerate" else (3 if tier == "quick" else 10)
                for s in range(n_slices):
                    sp = {"index": idx, "seed": sd, "mode": mode, "slice": [40 * s, 40 * (s + 1)], "complete": j % 4 != 3}
                    if mode == "lines":
                        sp["budget"] = 40 * n_slices
                        sp["phase"] = j
                    specs.append(sp)
                    idx += 1
                idx -= 1
            else:
                specs.append({"index": idx, "seed": sd, "mode": mode})
            idx += 1
    return specs


def simplifiers():
    def drop_records(case):
        cat = case["catalogue"]
        used = set()
        wd = {w["h"]: w["rec"] for w in cat["wrappers"]}
        for op in case["ops"]:
            if op["op"] == "assemble":
                used.update(wd.get(h) for h in [op["vec"]] + list(op["mods"]))
            elif "rec" in op:
                used.add(op["rec"])
            elif op["op"] == "rewrap":
                used.add(wd.get(op["h"]))
        for r in cat["pool"]:
            if r["id"] in used and r.get("derive"):
                used.add(r["derive"]["from"])
        if any(r["id"] not in used for r in cat["pool"]):
            c2 = dict(cat, pool=[r for r in cat["pool"] if r["id"] in used], wrappers=[w for w in cat["wrappers"] if w["rec"] in used])
            yield dict(case, catalogue=c2)

    def fewer_modules(case):
        for i, op in enumerate(case["ops"]):
            if op["op"] == "assemble" and len(op["mods"]) > 1:
                for j in range(len(op["mods"])):
                    ops = list(case["ops"])
                    ops[i] = dict(op, mods=op["mods"][:j] + op["mods"][j + 1:])
                    yield dict(case, ops=ops)

    def boundary_instead_of_line(case):
        for i, f in enumerate(case.get("faults", [])):
            if f["mode"] == "line":
                for k in range(0, 8):
                    fs = list(case["faults"])
                    fs[i] = {"op": f["op"], "mode": "boundary", "call": k, "when": "before", "exc": f["exc"]}
                    yield dict(case, faults=fs)
            elif f["exc"] != "InjectedFault":
                fs = list(case["faults"])
                fs[i] = dict(f, exc="InjectedFault")
                yield dict(case, faults=fs)

    def drop_features(case):
        cat = case["catalogue"]
        for ri, rd in enumerate(cat["pool"]):
            for fi in range(len(rd.get("features", []))):
                pool = list(cat["pool"])
                pool[ri] = dict(rd, features=rd["features"][:fi] + rd["features"][fi + 1:])
                yield dict(case, catalogue=dict(cat, pool=pool))

    return [drop_records, fewer_modules, boundary_instead_of_line, drop_features]


def catalogue_summary(case):
    cat = case["catalogue"]
    return {"cutter": cat["cutter"], "records": [{"id": r["id"], "role": r["role"], "len": len(r.get("seq", "")), "references": r.get("references"), "features": [{"uid": f["uid"], "kind": f.get("kind"), "citation": f.get("citation")} for f in r.get("features", [])] if not r.get("source") else r.get("cite")} for r in cat["pool"]],
            "wrappers": cat["wrappers"], "crash_points": case.get("crash_points")}


EXPECTED_PROBES = {
    "C07": ["input-derived-by-rotation-shares-qualifiers", "level2-product", "product-kept", "product-reused-as-input", "inputs-sharing-an-id-string", "input-origin-on-fragment-start", "unused-modules-raised-as-error", "assemble-with-duplicate-reference-in-one-record", "assemble-with-malformed-citation", "probe:target_sequence", "edit:citation", "assemble-with-citations", "refinement-after-failure", "refinement-after-injected-fault", "same-instance-twice", "missing-module", "unused-modules-warning", "stale-wrapper-used", "edit:edit_seq", "rewrap"],
    "C10": ["product-carries-citation", "product-with-cited-inputs", "tagged-cited-feature-traced-into-product"],
}


def coverage_extra(prop, stats, probes):
    fired = {k: v for k, v in stats.items() if k.startswith("fault_fired")}
    armed = {k: v for k, v in stats.items() if k.startswith("fault_armed")}
    cps = {}
    for mode in ("boundary", "line"):
        cps[mode] = {"scenarios": stats.get("crash_point_scenarios:" + mode, 0), "possible": stats.get("crash_points_possible:" + mode, 0), "enumerated": stats.get("crash_points_enumerated:" + mode, 0),
                     "note": "boundary = every call the manager makes into an element x {before, after}, complete per sampled scenario; line = moclo source lines inside target_sequence extents, complete in the thorough tier, first slices only in the quick tier"}
    return {"faults": {"armed": armed, "fired": fired}, "outcomes": {k[9:]: v for k, v in stats.items() if k.startswith("assemble:")}, "crash_point_coverage": cps}


def describe(prop):
    if prop == "C07":
        return (
            "fault_enumeration",
            "Each case is one simulated run over a shared pool of record objects and wrapper instances (synthetic plasmids for BsaI/BsmBI/BpiI/BbsI/SapI with feature tables, 0-3 references or none, cited features; plus real CIDAR kit assemblies with citations added). 'enumerate'/'lines' runs sample one assemble call, measure by a dry run how many calls it makes into its elements (K) / how many moclo line events occur inside target_sequence (L) and then inject an exception at EVERY call boundary k<K x {before,after} (resp. every line n<L, thorough) in consecutive calls on the SAME objects, with clean calls in between; 'random' runs interleave 1-3 clients issuing complete, gapped, duplicated, reverse-complemented, orphaned, invalid and repeated-instance calls, caller-level edits/repairs, re-wrapping and randomly placed faults. After every operation every pool record is compared with its snapshot (C07.purity); every call whose fault did not fire is compared with the same call executed first in a pristine process on a freshly built pool (C07.refinement / C07.recovery). Distinct = distinct run digest. Non-trivial = the run contained records with citations AND at least one failing call (natural or injected) followed by further operations.",
            ["crash points are exceptions (five Exception subclasses and an injected KeyboardInterrupt) raised at element-call boundaries or at moclo source lines inside fragment extraction (frames named target_sequence in the moclo package; frames of _assembly.py itself are not crash points: an exception inside the restoring code cannot be survived by any implementation that mutates temporarily)",
             "operations are atomic (synchronous library, no thread-safety promise)",
             "purity is by value over a canonical deep snapshot (sequence, ids, features, qualifiers, annotations, references; absent reference list == empty)",
             "sampled scenarios, enumerated crash points per scenario: evidence, not proof"],
        )
    return (
        "exploration",
        "Same simulated runs as C07 (one simulation, two oracles). For every assemble that returns a product the citation oracle - computed from the generated catalogue only - checks: every citation qualifier is '[n]' within the product's reference list (C10.form); each inherited feature, traced by its unique note tag, cites exactly the references its source cited, in order (C10.target); each cited reference occurs once (C10.once); product sequence/features equal those of the same call on inputs stripped of citations, executed in a pristine process (C10.same-as-without); inputs' citation data unchanged (C10.inputs). Consecutive calls, calls after failed calls and after injected faults are part of every history. Distinct = distinct run digest. Non-trivial = at least one product in the run carried a citation qualifier inherited from an input.",
        ["the C10 clauses are judged only for calls whose inputs carry well-formed, in-range citations and whose wrappers were created after the last caller edit of their record; citation lists are not aliased between features",
         "a product reference is attributed to a catalogue reference by everything Reference.__eq__ compares, falling back to the bibliographic fields when span/remark were not carried over; targets are compared set-wise per feature",
         "sampled histories: evidence, not proof"],
    )


STATE_MEASURE = "distinct (previous call's outcome kind, this call's outcome kind, inputs carry citations?, fault armed?, number of modules) tuples"


EXPECTED_STATS = {"C07": ["fault_fired:boundary", "fault_fired:line", "fault_fired_at:target_sequence:before", "fault_fired_at:target_sequence:after",
                          "fault_fired_at:overhang_start:before", "fault_fired_at:overhang_end:after", "fault_fired_exc:KeyboardInterrupt", "reference_executions"],
                  "C10": ["stripped_reference_executions", "reference_executions"]}
