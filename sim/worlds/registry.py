# coding: utf-8
"""`registry` world — C20: registries are coherent read-only mappings.

System under test (real): FilesystemRegistry, EmbeddedRegistry (+ the five kit
registries and the archives built by the kits' own setup.py), CombinedRegistry,
find_resistance, Biopython's GenBank parser, tarfile/gzip, PyFilesystem's FS
base-class logic (filterdir, isfile, open, read_only wrapper), property_cached.
Simulated (stub medium under real readers): SimFS(MemoryFS) overriding the
primitives scandir/getinfo/openbin, SimStream substituted for
pkg_resources.resource_stream.  Legal nondeterminism always on: every listing
is a fresh seeded permutation, every binary read returns a seeded short count.
Faults (fault batches only): I/O errors on the k-th scandir / after j listed
entries / getinfo / openbin / at a byte offset of a read.
Reference model: plain dictionaries built from the generator's bookkeeping and
from the .gb sources parsed with Biopython only.
"""
from __future__ import annotations

import errno
import io
import os

from .. import kernel
from ..kernel import h64, stream, stateless

PROP = "C20"
KNOWN_ANTIBIOTICS = {"Kanamycin", "Chloramphenicol", "Ampicillin", "Spectinomycin"}
LABELS = {"KanR": "Kanamycin", "CamR": "Chloramphenicol", "CmR": "Chloramphenicol", "KnR": "Kanamycin", "AmpR": "Ampicillin", "SmR": "Spectinomycin", "SpecR": "Spectinomycin"}
EMBEDDED = {
    "ytk": ("moclo.registry.ytk", "YTKRegistry", "ytk"),
    "ptk": ("moclo.registry.ytk", "PTKRegistry", "ptk"),
    "cidar": ("moclo.registry.cidar", "CIDARRegistry", "cidar"),
    "ecoflex": ("moclo.registry.ecoflex", "EcoFlexRegistry", "ecoflex"),
    "plant": ("moclo.registry.plant", "PlantRegistry", "plant"),
}
EMB_WEIGHT = {"ptk": 6, "cidar": 3, "ecoflex": 3, "ytk": 2, "plant": 1}
DIR_BASES = {
    "kit:ytk.YTKPart": ["ytk", "ptk"],
    "kit:cidar.CIDARPart": ["cidar"],
    "kit:ecoflex.EcoFlexPart": ["ecoflex"],
    "kit:moclo.MoCloPart": ["plant"],
}

W = {}


# --------------------------------------------------------------------------
# template initialisation (parses .gb sources with Biopython only)


def init(scratch, tier="quick"):
    import Bio.SeqIO
    from .. import build

    W.clear()
    W["scratch"] = scratch
    model = {}
    src_bytes = {}
    for reg, files in build.gb_sources(scratch).items():
        m = {}
        for stem, path in files.items():
            rec = Bio.SeqIO.read(path, "gb")
            res = set()
            for f in rec.features:
                for lab in f.qualifiers.get("label", []):
                    if lab in LABELS:
                        res.add(LABELS[lab])
            m[stem] = {"seq": str(rec.seq).upper(), "rec_id": rec.id, "resistance": sorted(res)}
            with open(path, "rb") as fh:
                src_bytes["%s/%s" % (reg, stem)] = fh.read()
        model[reg] = m
    W["model"] = model
    W["src_bytes"] = src_bytes
    W["archives"] = {}
    for kind, (mod, cls, reg) in EMBEDDED.items():
        m = __import__(mod, fromlist=["x"])
        c = getattr(m, cls)
        path = os.path.join(os.path.dirname(m.__file__), c._file)
        with open(path, "rb") as fh:
            W["archives"][(mod, c._file)] = fh.read()
    W["eligible"] = None
    return W


def _eligible_child(base_id):
    """(child) which kit plasmids `base.characterize` can type; workload
    selection only."""
    import Bio.SeqIO
    from moclo.record import CircularRecord

    base = resolve_class(base_id)
    out = []
    for reg in DIR_BASES[base_id]:
        for stem in sorted(W["model"][reg]):
            if not W["model"][reg][stem]["resistance"]:
                continue
            rec = CircularRecord(Bio.SeqIO.read(io.StringIO(W["src_bytes"]["%s/%s" % (reg, stem)].decode("utf8")), "gb"))
            try:
                base.characterize(rec)
                out.append("%s/%s" % (reg, stem))
            except Exception:
                pass
    return out


def _eligible_task(base_id):
    return kernel.fork_call(_eligible_child, (base_id,), timeout=300, what="eligibility " + base_id)


def prepare():
    el = {}
    for status, b, res in kernel.pool_map(_eligible_task, list(DIR_BASES), chunk=1):
        if status != "ok":
            raise kernel.HarnessError("eligibility table: %s" % res)
        el[b] = res
    W["eligible"] = el


def resolve_class(cid):
    kind, rest = cid.split(":", 1)
    mod, name = rest.split(".")
    m = __import__("moclo.kits." + mod, fromlist=["x"])
    return getattr(m, name)


# --------------------------------------------------------------------------
# the simulated store


class Sim(object):
    """Per-run controller of the storage seams."""

    def __init__(self, case):
        self.seed = case["run_seed"]
        self.store = case.get("store", {"chunk": [1, 64], "permute": True})
        self.faults = {}
        for f in case.get("faults", []):
            self.faults.setdefault(f["op"], []).append(f)
        self.op = None
        self.occ = kernel.Counter()
        self.fired = []
        self.counts = kernel.Counter()
        self.active = False
        self.perms = set()

    def begin(self, op_id):
        self.op = op_id
        self.occ = kernel.Counter()
        self.fired = []
        self.active = True

    def end(self):
        self.active = False
        self.op = None

    def seam(self, name, detail=""):
        """Called at every primitive; raises if the plan says so."""
        if not self.active:
            return
        k = self.occ[name]
        self.occ[name] += 1
        self.counts["seam:" + name] += 1
        for f in self.faults.get(self.op, ()):
            if f["seam"] == name and f.get("occurrence", 0) == k:
                self.fired.append("%s#%d" % (name, k))
                self.counts["fired:" + name] += 1
                raise self._exc(f, "%s %s" % (name, detail))

    def _exc(self, f, what):
        if f.get("exc") == "fs":
            import fs.errors

            return fs.errors.OperationFailed(path=what, exc=OSError(errno.EIO, "injected I/O error"))
        return OSError(errno.EIO, "injected I/O error at %s" % what)

    def chunk(self, label, occ):
        lo, hi = self.store.get("chunk", [1, 64])
        if not self.active:
            return 1 << 16
        v = stateless(self.seed, self.op, "read:" + label, occ)
        return lo + v % (hi - lo + 1)

    def read_fault(self, seam, offset, n, label):
        """byte-offset faults: raise when the read would cross offset b."""
        if not self.active:
            return
        for f in self.faults.get(self.op, ()):
            if f["seam"] == seam and "offset" in f and offset <= f["offset"] < offset + max(n, 1) and not f.get("_done"):
                if f.get("label") in (None, label):
                    f["_done"] = True
                    self.fired.append("%s@%d" % (seam, f["offset"]))
                    self.counts["fired:" + seam] += 1
                    raise self._exc(f, "%s offset %d" % (label, f["offset"]))

    def permutation(self, n, path):
        if not self.active or not self.store.get("permute", True) or n < 2:
            return list(range(n))
        k = self.occ["perm:" + path]
        self.occ["perm:" + path] += 1
        import random

        r = random.Random(stateless(self.seed, self.op, "perm:" + path, k))
        idx = list(range(n))
        r.shuffle(idx)
        self.counts["listing-permuted"] += idx != list(range(n))
        self.perms.add(h64(path, tuple(idx)) & ((1 << 40) - 1))
        return idx


class SimStream(io.RawIOBase):
    """Seekable raw stream with seeded short reads and byte-offset faults."""

    def __init__(self, data, sim, label, seam):
        super(SimStream, self).__init__()
        self._data = data
        self._pos = 0
        self._sim = sim
        self._label = label
        self._seam = seam
        self._n = 0

    def readable(self):
        return True

    def seekable(self):
        return True

    def writable(self):
        return False

    def tell(self):
        return self._pos

    def seek(self, offset, whence=0):
        if whence == 0:
            self._pos = offset
        elif whence == 1:
            self._pos += offset
        else:
            self._pos = len(self._data) + offset
        self._pos = max(0, self._pos)
        return self._pos

    def readinto(self, b):
        want = len(b)
        if want == 0:
            return 0
        n = min(want, self._sim.chunk(self._label, self._n), max(0, len(self._data) - self._pos))
        self._n += 1
        self._sim.read_fault(self._seam, self._pos, n, self._label)
        if n < want and self._pos + n < len(self._data):
            self._sim.counts["short-read:" + self._seam] += 1
        b[:n] = self._data[self._pos:self._pos + n]
        self._pos += n
        return n


def make_simfs(sim):
    from fs.memoryfs import MemoryFS
    from fs.path import join, abspath, normpath

    class SimFS(MemoryFS):
        def scandir(self, path, namespaces=None, page=None):
            sim.seam("scandir", path)
            names = MemoryFS.listdir(self, path)
            infos = [MemoryFS.getinfo(self, join(abspath(normpath(path)), n), namespaces=namespaces) for n in names]
            order = sim.permutation(len(infos), path)
            infos = [infos[i] for i in order]

            def gen():
                for j, info in enumerate(infos):
                    sim.seam("scandir-entry", "%s[%d]" % (path, j))
                    yield info

            return gen()

        def getinfo(self, path, namespaces=None):
            sim.seam("getinfo", path)
            return MemoryFS.getinfo(self, path, namespaces=namespaces)

        def openbin(self, path, mode="r", buffering=-1, **options):
            if "w" in mode or "a" in mode or "+" in mode or "x" in mode:
                return MemoryFS.openbin(self, path, mode, buffering, **options)
            sim.seam("openbin", path)
            with MemoryFS.openbin(self, path, "r") as fh:
                data = fh.read()
            return SimStream(data, sim, path, "read")

    return SimFS()


def file_bytes(e):
    """Bytes of a generated plasmid file.  Variant 'extra-label' gives the
    resistance feature a second /label qualifier placed BEFORE the standard one
    (legal GenBank; the plasmid and its resistance are unchanged)."""
    data = W["src_bytes"][e["source"]]
    if e.get("variant") == "extra-label":
        lines = data.decode("utf8").split("\n")
        for i, line in enumerate(lines):
            st = line.strip()
            if st.startswith('/label="') and st[8:-1] in LABELS:
                indent = line[: len(line) - len(line.lstrip())]
                lines.insert(i, indent + '/label="marker alias"')
                break
        data = "\n".join(lines).encode("utf8")
    return data


def fill_fs(simfs, entries, prefix="/"):
    from fs.memoryfs import MemoryFS
    from fs.path import join

    for e in entries:
        p = join(prefix, e["name"])
        if e["kind"] == "dir":
            MemoryFS.makedir(simfs, p, recreate=True)
            fill_fs(simfs, e.get("entries", []), p)
        elif e["kind"] == "file":
            MemoryFS.writebytes(simfs, p, file_bytes(e))
        else:
            MemoryFS.writebytes(simfs, p, e.get("bytes", "junk").encode("utf8"))


def fill_real(root, entries):
    for e in entries:
        p = os.path.join(root, e["name"])
        if e["kind"] == "dir":
            os.makedirs(p, exist_ok=True)
            fill_real(p, e.get("entries", []))
        elif e["kind"] == "file":
            with open(p, "wb") as fh:
                fh.write(file_bytes(e))
        else:
            with open(p, "wb") as fh:
                fh.write(e.get("bytes", "junk").encode("utf8"))


# --------------------------------------------------------------------------
# model of a directory registry


def dir_model(d, case_insensitive=False):
    """Key -> plasmid of a directory registry.  `case_insensitive` is what the
    filesystem object itself declares (getmeta()['case_insensitive']): extension
    patterns are matched under the filesystem's own rule.  The simulated store is
    case-sensitive; a real OSFS under fs 2.3.1 declares itself case-insensitive
    on POSIX."""
    exts = d["extensions"]
    keys = {}
    for e in d["entries"]:
        if e["kind"] == "file":
            stem, dot, ext = e["name"].rpartition(".")
            ok = ext in exts or (case_insensitive and ext.lower() in [x.lower() for x in exts])
            if dot and stem and ok:
                keys[stem] = e["source"]
    return keys


def plasmid(source):
    reg, stem = source.split("/", 1)
    return W["model"][reg][stem]


# --------------------------------------------------------------------------
# run child


class Fail(Exception):
    def __init__(self, clause, detail, expected=None, observed=None):
        self.clause, self.detail, self.expected, self.observed = clause, detail, expected, observed


def _check_item(item, key, src, clause_prefix=""):
    from moclo.record import CircularRecord

    if src is None:
        # which member's plasmid wins is left open here (see _propagate_growth): judge the
        # parts of the statement that do not depend on it
        if getattr(item, "id", None) != key:
            raise Fail("C20.item-id", "item looked up under %r carries id %r" % (key, getattr(item, "id", None)), key, getattr(item, "id", None))
        rec = item.entity.record
        if not isinstance(rec, CircularRecord) or rec.id != key:
            raise Fail("C20.record", "item %r does not hold a circular record with that id" % (key,))
        if item.resistance not in KNOWN_ANTIBIOTICS:
            raise Fail("C20.resistance", "item %r has unknown resistance %r" % (key, item.resistance))
        return {"id": item.id, "loose": True}
    pm = plasmid(src)
    if getattr(item, "id", None) != key:
        raise Fail("C20.item-id", "item looked up under %r carries id %r" % (key, getattr(item, "id", None)), key, getattr(item, "id", None))
    rec = item.entity.record
    if not isinstance(rec, CircularRecord):
        raise Fail("C20.record", "item %r holds a %s, not a circular record" % (key, type(rec).__name__))
    if rec.id != key:
        raise Fail("C20.record", "record of item %r has id %r" % (key, rec.id), key, rec.id)
    if str(rec.seq).upper() != pm["seq"]:
        raise Fail("C20.record", "item %r holds another plasmid's sequence (expected %s)" % (key, src), kernel.digest_of(pm["seq"])[:12], kernel.digest_of(str(rec.seq).upper())[:12])
    if rec.annotations.get("topology", "circular").lower() != "circular":
        raise Fail("C20.record", "record of %r is not circular" % (key,))
    if item.resistance not in KNOWN_ANTIBIOTICS:
        raise Fail("C20.resistance", "item %r has unknown resistance %r" % (key, item.resistance), sorted(KNOWN_ANTIBIOTICS), item.resistance)
    if pm["resistance"] and item.resistance not in pm["resistance"]:
        raise Fail("C20.resistance", "item %r reports %r, its plasmid carries %s" % (key, item.resistance, pm["resistance"]), pm["resistance"], item.resistance)
    return {"id": item.id, "seq": kernel.digest_of(str(rec.seq).upper())[:12], "res": item.resistance, "type": type(item.entity).__name__}


def _run_child(case):
    import pkg_resources
    from moclo.registry.base import FilesystemRegistry, CombinedRegistry

    sim = Sim(case)
    cat = case["catalogue"]
    stores = {}
    tmpdirs = []
    for d in cat["dirs"]:
        if case.get("store", {}).get("medium") == "osfs":
            # real medium: a real directory read through PyFilesystem's OSFS (no simulator control
            # over listing order or read sizes; fault-free runs only)
            import tempfile
            import fs as _fs

            root = tempfile.mkdtemp(prefix="moclo-verif-%d-osfs-" % os.getpid(), dir=os.path.dirname(W["scratch"]))
            tmpdirs.append(root)
            fill_real(root, d["entries"])
            stores[d["id"]] = _fs.open_fs(root)
            sim.counts["real-osfs-directory"] += 1
        else:
            sfs = make_simfs(sim)
            fill_fs(sfs, d["entries"])
            stores[d["id"]] = sfs

    real_rs = pkg_resources.resource_stream

    def fake_resource_stream(module, name):
        key = (module if isinstance(module, str) else getattr(module, "__name__", str(module)), name)
        if key in W["archives"]:
            sim.seam("archive-open", name)
            # the real resource_stream is a buffered file object (open(path, "rb")):
            # consumers such as gzip rely on read(n) returning n bytes unless EOF, so
            # the short counts live below a real io.BufferedReader, as for FS.open()
            return io.BufferedReader(SimStream(W["archives"][key], sim, name, "archive-read"), buffer_size=sim.chunk("bufsize:" + name, 0) + 1)
        return real_rs(module, name)

    pkg_resources.resource_stream = fake_resource_stream
    regs = {}    # handle -> registry object
    models = {}  # handle -> {"kind", "keys": {key: source}, "lo"/"hi" under uncertainty, "tainted": bool}
    out = []
    try:
        for op in case["ops"]:
            ev = _do_op(sim, cat, stores, regs, models, op)
            out.append(ev)
    finally:
        pkg_resources.resource_stream = real_rs
        import shutil

        for t in tmpdirs:
            shutil.rmtree(t, ignore_errors=True)
    return {"events": out, "counts": dict(sim.counts), "perms": len(sim.perms)}


def _emb_model(kind):
    reg = EMBEDDED[kind][2]
    return {stem: "%s/%s" % (reg, stem) for stem in W["model"][reg]}


def _do_op(sim, cat, stores, regs, models, op):
    from moclo.registry.base import FilesystemRegistry, CombinedRegistry

    k = op["op"]
    ev = {"op": k, "id": op["id"], "fired": [], "result": None, "fail": None, "faulted": False}
    r = op.get("r")
    reg = regs.get(r)
    model = models.get(r)
    sim.begin(op["id"])
    try:
        try:
            if k == "open_dir":
                d = next(x for x in cat["dirs"] if x["id"] == op["dir"])
                regs[r] = FilesystemRegistry(stores[d["id"]], resolve_class(d["base"]), tuple(d["extensions"]))
                ci = bool(stores[d["id"]].getmeta().get("case_insensitive", False))
                certain = dir_model(d, False)
                models[r] = {"kind": "dir", "keys": dict(certain), "dir": d["id"]}
                # Whether 'x.GB' is a plasmid file of a registry opened for 'gb' is left open on every
                # store: a registry may follow the store's own matching rule (a real OSFS under fs
                # 2.3.1 declares itself case-insensitive even on a case-sensitive disk, a MemoryFS
                # does not) or match extensions itself, case-sensitively or not.  Whatever it does, it
                # must be coherent: the first fault-free observation of its key set fixes the model
                # and everything afterwards must agree with it.
                wide = dir_model(d, True)
                if set(wide) != set(certain):
                    models[r]["lo"], models[r]["hi"] = dict(certain), wide
                ev["result"] = "ok"
            elif k == "swap_dir":
                # `r = FilesystemRegistry(next_dir, base)` in a loop: the previous registry object is
                # released by the very assignment that creates the next one
                d = next(x for x in cat["dirs"] if x["id"] == op["dir"])
                store, base, exts = stores[d["id"]], resolve_class(d["base"]), tuple(d["extensions"])
                certain, wide = dir_model(d, False), dir_model(d, True)
                model_new = {"kind": "dir", "keys": dict(certain), "dir": d["id"]}
                if set(wide) != set(certain):
                    model_new["lo"], model_new["hi"] = dict(certain), wide
                models.pop(op["old"], None)
                models[r] = model_new
                reg = None
                regs.pop(op["old"], None)
                regs[r] = FilesystemRegistry(store, base, exts)
                ev["result"] = "ok"
            elif k == "embedded":
                mod, cls, _ = EMBEDDED[op["kind"]]
                regs[r] = getattr(__import__(mod, fromlist=["x"]), cls)()
                models[r] = {"kind": "embedded", "keys": _emb_model(op["kind"]), "emb": op["kind"]}
                ev["result"] = "ok"
            elif k == "combined":
                regs[r] = CombinedRegistry()
                models[r] = {"kind": "combined", "keys": {}}
                ev["result"] = "ok"
            elif k == "drop":
                regs.pop(r, None)
                models.pop(r, None)
                import gc

                gc.collect()
                ev["result"] = "ok"
            elif reg is None:
                ev["result"] = {"skip": "no-handle"}
            elif k == "add":
                member, mm = regs.get(op["member"]), models.get(op["member"])
                if member is None:
                    ev["result"] = {"skip": "no-member"}
                else:
                    before = dict(model["keys"])
                    hi = dict(before)
                    for kk, src in (mm.get("hi") or mm["keys"]).items():
                        hi.setdefault(kk, src)
                    exact = dict(before)
                    for kk, src in mm["keys"].items():
                        exact.setdefault(kk, src)
                    # keys that an earlier UN-ACKNOWLEDGED add may or may not have inserted: if this
                    # member brings the same key with another plasmid, which of the two the registry
                    # holds is not determined (first-wins applies to what was really inserted)
                    if "lo" in model:
                        for kk, src in (mm.get("hi") or mm["keys"]).items():
                            if kk in model["hi"] and kk not in model["lo"] and model["hi"][kk] != src:
                                model.setdefault("loose", set()).add(kk)
                    for kk in mm.get("loose", ()):
                        if kk not in (model.get("lo") if "lo" in model else model["keys"]):
                            model.setdefault("loose", set()).add(kk)
                    model.setdefault("members", []).append(op["member"])
                    _propagate_growth(models, r, {kk: src for kk, src in hi.items() if kk not in before})
                    try:
                        if op.get("via") == "lshift":
                            reg << member
                        else:
                            reg.add_registry(member)
                    except Fail:
                        raise
                    except Exception:
                        # un-acknowledged: any prefix of the member may have been applied
                        model["lo"] = dict(model.get("lo") or before)
                        model["hi"] = dict(model.get("hi") or before)
                        for kk, src in hi.items():
                            model["hi"].setdefault(kk, src)
                        raise
                    if "lo" in model or "lo" in mm:
                        # member or target already uncertain: widen
                        lo = dict(model.get("lo") or before)
                        for kk, src in (mm.get("lo") or mm["keys"]).items():
                            lo.setdefault(kk, src)
                        h2 = dict(model.get("hi") or before)
                        for kk, src in hi.items():
                            h2.setdefault(kk, src)
                        model["lo"], model["hi"] = lo, h2
                    model["keys"] = exact
                    ev["result"] = "ok"
            elif k == "len":
                n = len(reg)
                ev["result"] = n
                if _resolve_uncertainty(model, None, n) == "undetermined":
                    pass
                elif n != len(model["keys"]):
                    raise Fail("C20.len", "len() is %d, the registry has %d keys" % (n, len(model["keys"])), len(model["keys"]), n)
            elif k in ("iter", "keys"):
                keys = list(iter(reg)) if k == "iter" else list(reg.keys())
                ev["result"] = sorted(map(str, keys))
                if len(set(keys)) != len(keys):
                    dup = sorted(str(x) for x in set(keys) if keys.count(x) > 1)
                    raise Fail("C20.iter-once", "iteration yields %s more than once" % dup[:3])
                _resolve_uncertainty(model, set(keys), None)
                if set(keys) != set(model["keys"]):
                    missing = sorted(set(model["keys"]) - set(keys))[:3]
                    extra = sorted(map(str, set(keys) - set(model["keys"])))[:3]
                    raise Fail("C20.iter-once", "iteration yields a wrong key set (missing %s, unexpected %s)" % (missing, extra), sorted(model["keys"])[:6], sorted(map(str, keys))[:6])
            elif k == "iter_partial":
                # a client abandons an iteration (next(iter(r)), any(...), break)
                it = iter(reg)
                got = []
                for _ in range(op["n"]):
                    try:
                        got.append(next(it))
                    except StopIteration:
                        break
                del it
                ev["result"] = len(got)
                if "lo" not in model:
                    bad = [x for x in got if x not in model["keys"]]
                    if bad or len(set(got)) != len(got):
                        raise Fail("C20.iter-once", "partial iteration yields %s" % (bad[:3] or "duplicates"))
            elif k == "iter_nested":
                pairs = 0
                for a_ in reg:
                    for b_ in reg:
                        pairs += 1
                ev["result"] = pairs
                if "lo" not in model and pairs != len(model["keys"]) ** 2:
                    raise Fail("C20.iter-once", "nested iteration visits %d pairs for %d keys" % (pairs, len(model["keys"])), len(model["keys"]) ** 2, pairs)
            elif k in ("values", "items"):
                vals = list(reg.values()) if k == "values" else list(reg.items())
                _resolve_uncertainty(model, set((v[0] if k == "items" else getattr(v, "id", None)) for v in vals), None)
                if len(vals) != len(model["keys"]):
                    raise Fail("C20.lookup", "%s() yields %d entries for %d keys" % (k, len(vals), len(model["keys"])))
                res = []
                for v in vals:
                    key, item = (v if k == "items" else (v.id, v))
                    if key not in model["keys"]:
                        raise Fail("C20.lookup", "%s() yields an entry for unknown key %r" % (k, key))
                    res.append(_check_item(item, key, _model_src(model, key)))
                ev["result"] = sorted(x["id"] for x in res)
            elif k in ("getitem", "contains", "get"):
                key = _mk_key(op["key"])
                present = _model_has(model, key)
                if k == "getitem":
                    try:
                        item = reg[key]
                    except KeyError:
                        ev["result"] = {"exc": "KeyError"}
                        if present is True and not sim.fired:
                            raise Fail("C20.lookup", "key %r is yielded by iteration but lookup raises KeyError" % (key,))
                    else:
                        if present is False:
                            raise Fail("C20.absent", "lookup of absent key %r returned %s instead of raising KeyError" % (key, _descr(item)), "KeyError", _descr(item))
                        if present is True:
                            ev["result"] = _check_item(item, key, _model_src(model, key), "")
                        else:
                            ev["result"] = "uncertain"
                elif k == "contains":
                    ans = key in reg
                    ev["result"] = bool(ans)
                    if present is not None and bool(ans) != present and not (sim.fired and present is True):
                        raise Fail("C20.absent" if not present else "C20.lookup", "%r in registry is %s, iteration says %s" % (key, ans, present), present, bool(ans))
                else:
                    sentinel = object()
                    ans = reg.get(key, sentinel)
                    ev["result"] = "default" if ans is sentinel else "item"
                    if present is True and ans is sentinel and sim.fired:
                        pass  # Mapping.get/in are built on __getitem__, which under a fault may raise KeyError
                    elif present is True:
                        if ans is sentinel:
                            raise Fail("C20.lookup", "get(%r) returns the default for a present key" % (key,))
                        ev["result"] = _check_item(ans, key, _model_src(model, key))
                    elif present is False and ans is not sentinel:
                        raise Fail("C20.absent", "get(%r) returns %s for an absent key" % (key, _descr(ans)))
            else:
                raise ValueError(k)
        except Fail as f:
            ev["fail"] = {"clause": f.clause, "detail": f.detail, "expected": f.expected, "observed": f.observed}
        except Exception as exc:
            ev["result"] = {"exc": type(exc).__name__}   # (no message: it may carry a scratch path)
            if isinstance(exc, TypeError) and k in ("getitem", "contains", "get") and not isinstance(_mk_key(op.get("key")), str):
                pass  # a key that is not a string may also be refused with TypeError
            elif not sim.fired:
                # an un-faulted operation must not raise (KeyError for absent keys is handled above)
                ev["fail"] = {"clause": "C20.absent" if k in ("getitem", "contains", "get") and _model_has(models.get(r), _mk_key(op.get("key"))) is False else "C20.lookup",
                              "detail": "%s raised %s: %s" % (k, type(exc).__name__, str(exc)[:120]), "expected": "KeyError" if k == "getitem" else None, "observed": type(exc).__name__}
    finally:
        ev["fired"] = list(sim.fired)
        ev["faulted"] = bool(sim.fired)
        sim.end()
    return ev


def _descr(item):
    try:
        return "an item with id %r" % (item.id,)
    except Exception:
        return type(item).__name__


def _mk_key(k):
    if isinstance(k, dict):
        if k.get("type") == "int":
            return k["v"]
        if k.get("type") == "none":
            return None
        if k.get("type") == "bytes":
            return k["v"].encode("utf8")
        if k.get("type") == "tuple":
            return tuple(k["v"])
    return k


def _model_has(model, key):
    """True / False / None (uncertain after an un-acknowledged add)."""
    if model is None:
        return None
    if not isinstance(key, str):
        return False
    if "lo" in model:
        if key in model["lo"]:
            return True
        if key not in model["hi"]:
            return False
        return None
    return key in model["keys"]


def _model_src(model, key):
    if key in model.get("loose", ()):
        return None
    if "lo" in model and key in model["lo"]:
        return model["lo"][key]
    return model["keys"][key]


def _propagate_growth(models, r, added, seen=None):
    """A combined registry `r` that is itself a member of other combined registries has
    (possibly) gained the keys `added`.  The statement does not say whether a combination
    is a snapshot of its members at the time they were added (the current code) or a live
    union (an equally legitimate design), so every registry containing `r` may or may not
    show the new keys, and for a key it already had through a LATER member either plasmid
    may win.  The next fault-free observation fixes the key set again."""
    seen = seen if seen is not None else set()
    for h, m in models.items():
        if m.get("kind") == "combined" and r in m.get("members", ()) and h not in seen and h != r:
            seen.add(h)
            lo = dict(m.get("lo") or m["keys"])
            hi = dict(m.get("hi") or m["keys"])
            for k, src in added.items():
                if k in hi:
                    if hi[k] != src:
                        m.setdefault("loose", set()).add(k)
                else:
                    hi[k] = src
            if set(hi) != set(lo):
                m["lo"], m["hi"] = lo, hi
            _propagate_growth(models, h, added, seen)


def _resolve_uncertainty(model, keyset, n):
    """After a failed add the key set lies between lo and hi; the first
    fault-free observation fixes it (first-wins values are determined by lo
    then hi order) and the model is exact again from then on."""
    if "lo" not in model:
        return
    lo, hi = model["lo"], model["hi"]
    if keyset is not None:
        if set(lo) <= set(keyset) <= set(hi):
            new = {}
            for kk in hi:
                if kk in keyset:
                    new[kk] = lo.get(kk, hi[kk])
            model["keys"] = new
            del model["lo"], model["hi"]
        else:
            model["keys"] = dict(hi) if len(keyset) > len(lo) else dict(lo)
            del model["lo"], model["hi"]
    elif n is not None:
        if len(lo) <= n <= len(hi):
            if len(lo) == len(hi) or n == len(lo):
                model["keys"] = dict(lo)
                del model["lo"], model["hi"]
            elif n == len(hi):
                model["keys"] = dict(hi)
                del model["lo"], model["hi"]
            else:
                return "undetermined"  # consistent with the interval, not yet fixed
        else:
            model["keys"] = dict(lo)
            del model["lo"], model["hi"]
    return "ok"


# --------------------------------------------------------------------------
# execute


def execute(case):
    res = kernel.fork_call(_run_child, (case,), timeout=150, what="registry run")
    events = res["events"]
    log = kernel.EventLog(keep=False)
    failures = []
    stats, probes = kernel.Counter(), kernel.Counter()
    stats.merge(res["counts"])
    states = set()
    fault_seen = False
    tainted = set()
    group = {}
    ops = case["ops"]
    for i, (op, ev) in enumerate(zip(ops, events)):
        if op["op"] == "embedded":
            group[op["r"]] = "emb:" + op["kind"]
        elif op["op"] in ("open_dir", "combined", "swap_dir"):
            group[op["r"]] = op["r"]
        stats["ops"] += 1
        stats["op:" + op["op"]] += 1
        log.append({"step": i, "id": op["id"], "op": op["op"], "fired": ev["fired"], "result": kernel.digest_of(ev["result"])[:16], "fail": ev["fail"]})
        if ev["faulted"]:
            fault_seen = True
            tainted.add(group.get(op.get("r")))
            if op["op"] == "add":
                tainted.add(group.get(op.get("member")))
            stats["faulted_ops"] += 1
            stats["faulted_op:" + op["op"]] += 1
            if isinstance(ev["result"], dict) and ev["result"].get("exc"):
                stats["faulted_op_raised"] += 1
            else:
                stats["faulted_op_returned"] += 1
        elif fault_seen:
            probes["op-after-fault"] += 1
            if group.get(op.get("r")) in tainted:
                probes["op-on-registry-that-saw-a-fault"] += 1
        if op["op"] in ("getitem", "contains", "get"):
            probes["key:" + op.get("key_class", "?")] += 1
            if op.get("key_class") == "present" and group.get(op.get("r"), "").startswith("r") and isinstance(ev["result"], dict) and ev["result"].get("id"):
                probes["directory-plasmid-looked-up"] += 1
        if op["op"] in ("iter_partial", "iter_nested"):
            probes["abandoned-iteration" if op["op"] == "iter_partial" else "nested-iteration"] += 1
        if (op["op"] == "drop" and i > 0 and ops[i - 1]["op"] == "add" and ops[i - 1].get("member") == op.get("r")) or \
                (op["op"] == "swap_dir" and i > 0 and ops[i - 1]["op"] == "add" and ops[i - 1].get("member") == op.get("old")):
            probes["temporary-member-released-after-add"] += 1
        if op["op"] == "add" and op.get("retry") and i > 0 and events[i - 1]["faulted"]:
            probes["add-retried-after-fault"] += 1
        if op["op"] == "add":
            probes["add"] += 1
            if op.get("overlap"):
                probes["add-overlapping-member"] += 1
            if op.get("repeat"):
                probes["add-repeated-member"] += 1
        if op["op"] == "embedded":
            probes["embedded:" + op["kind"]] += 1
            if op.get("second"):
                probes["second-equal-embedded-instance"] += 1
        states.add(h64("rg", op["op"], op.get("key_class"), ev["faulted"], bool(ev["fail"]), fault_seen) & ((1 << 48) - 1))
        if ev["fail"]:
            f = ev["fail"]
            clause = f["clause"]
            if ev["faulted"]:
                clause = "C20.no-wrong-data"
            elif fault_seen and group.get(op.get("r")) in tainted:
                clause = "C20.recovery"
            sig = "%s:%s" % (op["op"], op.get("key_class") or op.get("kind") or "-")
            failures.append({"property": PROP, "clause": clause, "op": i, "op_id": op["id"], "signature": sig, "expected": f.get("expected"), "observed": f.get("observed"), "detail": f["detail"] + (" [original clause %s]" % f["clause"] if clause != f["clause"] else "")})
    stats["listing_permutations_seen"] = res.get("perms", 0)
    for d in case["catalogue"]["dirs"]:
        srcs = [e["source"] for e in d["entries"] if e["kind"] == "file" and not e.get("distractor")]
        if len(set(srcs)) < len(srcs):
            probes["same-plasmid-under-two-stems"] += 1
        if any(e.get("variant") == "extra-label" for e in d["entries"]):
            probes["file-with-extra-label"] += 1
    nontrivial = bool(probes.get("add-overlapping-member") or stats.get("faulted_ops") or probes.get("key:present", 0) >= 1 and (probes.get("key:absent-random", 0) + probes.get("key:unsupported-ext", 0) + probes.get("key:subdir", 0)) >= 1)
    return {"digest": log.digest(), "failures": failures[:8], "n_failures": len(failures), "stats": dict(stats), "probes": dict(probes), "states": sorted(states), "nontrivial": nontrivial, "steps": len(ops), "schedule": h64("sched", tuple(op.get("client") for op in ops)) & ((1 << 48) - 1)}


# --------------------------------------------------------------------------
# generation


_STEM_ALPHA = "abcdefghijklmnopqrstuvwxyzABCDEFGHIJKLMNOPQRSTUVWXYZ0123456789"


def _fresh_stem(g, taken):
    for _ in range(100):
        n = g.randint(1, 10)
        s = "".join(g.choice(_STEM_ALPHA) for _ in range(n))
        c = g.random()
        if c < 0.15:
            s = s + "_" + g.choice(_STEM_ALPHA)
        elif c < 0.3:
            s = s + "-" + g.choice(_STEM_ALPHA)
        elif c < 0.4:
            s = s + "." + g.choice(_STEM_ALPHA) + g.choice(_STEM_ALPHA)   # inner dot
        elif c < 0.48:
            s = s + " " + g.choice(_STEM_ALPHA)                         # space
        elif c < 0.60:
            # punctuation a real file name can carry, including shell-wildcard characters
            s = g.choice(["%s[1]", "[draft] %s", "%s[0-9]x", "%s(2)", "%s+tag", "%s,v", "%s#3", "%s~", "{%s}", "%s!", "%s'"]) % s
        if "." in s and s.rpartition(".")[2].lower() in ("gb", "gbk", "genbank"):
            continue  # an inner dot followed by an extension would make a junk file look like a plasmid file
        if s.lower() not in taken:
            taken.add(s.lower())
            return s
    raise RuntimeError("stems exhausted")


def gen_dir(g, did, shared_stems, emb_keys, used_sources, sizes):
    base = g.choice(list(DIR_BASES))
    elig = (W["eligible"] or {}).get(base) or []
    exts = g.choice([["gb", "gbk"], ["gb", "gbk"], ["gb"], ["gbk", "genbank"], ["gb", "gbk", "genbank"]])
    entries, taken = [], set()
    n = g.choice([0, 1, 2, 3, 4, 5, 6, 8])
    if sizes and g.random() < 0.4:
        n = g.choice(sizes)          # as many plasmids as an earlier directory of this run
    sizes.append(n)
    for _ in range(n):
        if not elig:
            break
        src = g.choice(elig)
        again = [u for u in used_sources if u in elig]
        if again and g.random() < 0.2:
            src = g.choice(again)   # the same plasmid again under another stem (still typed for this base)
        used_sources.append(src)
        c = g.random()
        if shared_stems and c < 0.3:
            stem = g.choice(shared_stems)
            if stem.lower() in taken:
                continue
            taken.add(stem.lower())
        elif emb_keys and c < 0.4:
            stem = g.choice(emb_keys)
            if stem.lower() in taken:
                continue
            taken.add(stem.lower())
        else:
            stem = _fresh_stem(g, taken)
            if g.random() < 0.4:
                shared_stems.append(stem)
        ent = {"name": "%s.%s" % (stem, g.choice(exts)), "kind": "file", "source": src}
        if g.random() < 0.2:
            ent["variant"] = "extra-label"
        entries.append(ent)
    # distractors
    for _ in range(g.choice([0, 1, 2, 3])):
        if not elig:
            break
        stem = _fresh_stem(g, taken)
        ext = g.choice(["fa", "txt", "GB", "gb.bak", "gbx", "Gbk"] + ([] if "genbank" in exts else ["genbank"]))
        entries.append({"name": "%s.%s" % (stem, ext), "kind": "file", "source": g.choice(elig), "distractor": "unsupported-ext"})
    for _ in range(g.choice([0, 0, 1, 2])):
        stem = _fresh_stem(g, taken)
        sub = []
        if elig and g.random() < 0.7:
            sub.append({"name": "%s.%s" % (_fresh_stem(g, set()), exts[0]), "kind": "file", "source": g.choice(elig)})
        name = stem if g.random() < 0.6 else "%s.%s" % (stem, exts[0])  # a directory *named* like a plasmid file
        entries.append({"name": name, "kind": "dir", "entries": sub})
    if g.random() < 0.2:
        entries.append({"name": _fresh_stem(g, taken), "kind": "junk", "bytes": "no extension"})
    g.shuffle(entries)
    return {"id": did, "base": base, "extensions": exts, "entries": entries}


def _keys_for(g, d_or_none, model_keys, absent_extra=()):
    """(key, key_class) candidates for lookups on a registry with these keys."""
    out = []
    keys = sorted(model_keys)
    if keys:
        out.append((g.choice(keys), "present"))
        out.append((g.choice(keys), "present"))
        out.append((g.choice(keys) + "." + "gb", "key-with-extension"))
    out.append(("".join(g.choice(_STEM_ALPHA) for _ in range(g.randint(1, 8))) + "_zz", "absent-random"))
    out.append(({"type": "int", "v": g.randrange(100)}, "non-string"))
    out.append(({"type": "none"}, "non-string"))
    out.append(({"type": "tuple", "v": ["a", 1]}, "non-string"))
    if d_or_none is not None:
        for e in d_or_none["entries"]:
            nm = e["name"]
            if e["kind"] == "file" and e.get("distractor"):
                out.append((nm.split(".")[0], "unsupported-ext"))
            if e["kind"] == "dir":
                out.append((nm.rpartition(".")[0] or nm, "subdir"))
                out.append((nm, "subdir"))
                for s in e.get("entries", []):
                    out.append(("%s/%s" % (nm, s["name"].rpartition(".")[0]), "path-into-subdir"))
            if e["kind"] == "junk":
                out.append((nm, "no-extension-file"))
        if keys:
            k0 = g.choice(keys)
            out.append(("./" + k0, "path-like"))
            out.append(("/" + k0, "path-like"))
            out.append(("../" + k0, "path-backref"))
            out.append((k0 + "/", "path-like"))
            cv = k0.upper() if k0.upper() != k0 else k0.lower()
            if cv != k0 and cv not in model_keys:
                out.append((cv, "case-variant"))
        out.append(("", "empty"))
        out.append(("*", "wildcard"))
    for kx in absent_extra:
        out.append((kx, "absent-other-registry"))
    return out


def gen_case(spec):
    seed = spec["seed"]
    g = stream(seed, "gen")
    fl = stream(seed, "fault")
    st = stream(seed, "store")
    mode = spec.get("mode", "random")
    ops, faults = [], []
    lo = st.choice([1, 1, 7, 64, 500])
    store = {"chunk": [lo, st.choice([lo, lo * 4, 4096, 1 << 20])], "permute": True}
    store["chunk"][1] = max(store["chunk"])
    cat = {"dirs": [], "embedded": list(EMBEDDED)}
    case = {"format": 1, "world": "registry", "run_seed": seed, "spec": {k: v for k, v in spec.items() if k != "seed"}, "catalogue": cat, "store": store, "ops": ops, "faults": faults}

    def add(op):
        op["id"] = len(ops)
        op["client"] = 0
        ops.append(op)
        return op

    if mode == "sweep":
        kind = spec["kind"]
        add({"op": "embedded", "r": "e0", "kind": kind})
        add({"op": "len", "r": "e0"})
        add({"op": "iter", "r": "e0"})
        for key in sorted(_emb_model(kind)):
            add({"op": "getitem", "r": "e0", "key": key, "key_class": "present"})
        add({"op": "getitem", "r": "e0", "key": "no-such-plasmid", "key_class": "absent-random"})
        add({"op": "contains", "r": "e0", "key": "no-such-plasmid", "key_class": "absent-random"})
        add({"op": "items", "r": "e0"})
        add({"op": "len", "r": "e0"})
        add({"op": "embedded", "r": "e1", "kind": kind, "second": True})
        add({"op": "iter_partial", "r": "e1", "n": 3})
        add({"op": "iter", "r": "e1"})
        add({"op": "len", "r": "e1"})
        add({"op": "combined", "r": "c0"})
        add({"op": "add", "r": "c0", "member": "e0", "via": "lshift"})
        add({"op": "add", "r": "c0", "member": "e1", "via": "add_registry", "overlap": True, "repeat": True})
        add({"op": "len", "r": "c0"})
        add({"op": "iter", "r": "c0"})
        return case

    faulty = bool(spec.get("faulty"))
    if not faulty and st.random() < 0.12:
        store["medium"] = "osfs"
    shared_stems = []
    used_sources = []
    sizes = []
    emb_kinds = []
    n_emb = g.choice([0, 0, 1, 1, 2])
    kinds, weights = zip(*sorted(EMB_WEIGHT.items()))
    for _ in range(n_emb):
        emb_kinds.append(g.choices(kinds, weights)[0])
    emb_keys = []
    for kd in emb_kinds:
        ks = sorted(_emb_model(kd))
        emb_keys.extend(g.sample(ks, min(3, len(ks))))
    for i in range(g.choice([1, 1, 2, 2, 3])):
        cat["dirs"].append(gen_dir(g, "d%d" % i, shared_stems, emb_keys, used_sources, sizes))
    handles = {}   # handle -> ("dir", dir dict) | ("embedded", kind) | ("combined", [member handles])
    keysets = {}   # handle -> model key set at generation time (fault-free view)

    def model_of(h):
        return keysets[h]

    # open everything early, then mix
    for d in cat["dirs"]:
        h = "r%d" % len(handles)
        add({"op": "open_dir", "r": h, "dir": d["id"]})
        handles[h] = ("dir", d)
        keysets[h] = dir_model(d)
    for kd in emb_kinds:
        h = "r%d" % len(handles)
        second = any(v == ("embedded", kd) for v in handles.values())
        add({"op": "embedded", "r": h, "kind": kd, "second": second})
        handles[h] = ("embedded", kd)
        keysets[h] = _emb_model(kd)
    n_ops = g.randint(10, 50)
    combined = []
    contested = {}
    guard = 0
    motifs = []
    if g.random() < 0.10:
        motifs.append("parent-registry-first")
    if g.random() < 0.45 and len(cat["dirs"]) >= 2:
        motifs.append("temporary-members")
    clash = None
    for da in cat["dirs"]:
        for db in cat["dirs"]:
            if da is not db:
                ma, mb = dir_model(da), dir_model(db)
                both = [k_ for k_ in ma if k_ in mb and ma[k_] != mb[k_]]
                if both and clash is None:
                    clash = (da, db, both)
    if clash and g.random() < 0.5:
        motifs.append("nested-overlap")
    while len(ops) < n_ops and guard < 500:
        guard += 1
        live = [h for h in handles if handles[h] is not None]
        x = g.random()
        if motifs and g.random() < 0.15:
            m_ = motifs.pop()
            if m_ == "nested-overlap":
                # outer holds directory A, inner holds directory B, both define the same id:
                # outer << inner must keep A's plasmid
                da, db, both = clash
                ha, hb = "r%d" % len(handles), "r%d" % (len(handles) + 1)
                co, ci = "c%d" % len(combined), "c%d" % (len(combined) + 1)
                for h_, d_ in ((ha, da), (hb, db)):
                    add({"op": "open_dir", "r": h_, "dir": d_["id"]})
                    handles[h_] = ("dir", d_)
                    keysets[h_] = dir_model(d_)
                for c_ in (co, ci):
                    add({"op": "combined", "r": c_})
                    handles[c_] = ("combined", [])
                    keysets[c_] = {}
                    combined.append(c_)
                for tgt, mem in ((co, ha), (ci, hb), (co, ci)):
                    add({"op": "add", "r": tgt, "member": mem, "via": g.choice(["lshift", "add_registry"]), "overlap": bool(set(keysets[mem]) & set(keysets[tgt])), "repeat": False})
                    handles[tgt][1].append(mem)
                    for kk, src in keysets[mem].items():
                        keysets[tgt].setdefault(kk, src)
                for k_ in both[:2]:
                    add({"op": g.choice(["getitem", "get"]), "r": co, "key": k_, "key_class": "contested"})
                add({"op": "len", "r": co})
                continue
            if m_ == "parent-registry-first":
                # the registry class PTKRegistry derives from YTKRegistry: ask the parent first
                hy, hp = "r%d" % len(handles), "r%d" % (len(handles) + 1)
                ky, kp = sorted(_emb_model("ytk")), sorted(_emb_model("ptk"))
                add({"op": "embedded", "r": hy, "kind": "ytk", "second": False})
                add({"op": "contains", "r": hy, "key": g.choice(ky), "key_class": "present"})
                add({"op": "embedded", "r": hp, "kind": "ptk", "second": False})
                add({"op": "contains", "r": hp, "key": g.choice(kp), "key_class": "present"})
                add({"op": "contains", "r": hp, "key": g.choice(ky), "key_class": "absent-other-registry"})
                add({"op": "contains", "r": hy, "key": g.choice(kp), "key_class": "absent-other-registry"})
                handles[hy], handles[hp] = ("embedded", "ytk"), ("embedded", "ptk")
                keysets[hy], keysets[hp] = _emb_model("ytk"), _emb_model("ptk")
            else:
                # members created on the fly and released right after being added
                # (for d in dirs: combined << FilesystemRegistry(d, base))
                c = "c%d" % len(combined)
                add({"op": "combined", "r": c})
                handles[c] = ("combined", [])
                keysets[c] = {}
                combined.append(c)
                ds = sorted(cat["dirs"], key=lambda d_: len(dir_model(d_)))
                same = [d_ for d_ in ds if sum(1 for e_ in ds if len(dir_model(e_)) == len(dir_model(d_))) > 1 and dir_model(d_)]
                if same:
                    ds = same + [d_ for d_ in ds if d_ not in same]   # members with equal numbers of plasmids first
                elif g.random() < 0.5:
                    g.shuffle(ds)
                prev_t = None
                for d_ in (ds[:3] + ds[:3] if g.random() < 0.5 else ds[:3]):
                    t = "r%d" % len(handles)
                    if prev_t is None or g.random() < 0.3:
                        add({"op": "open_dir", "r": t, "dir": d_["id"]})
                    else:
                        add({"op": "swap_dir", "r": t, "old": prev_t, "dir": d_["id"]})
                    prev_t = t
                    handles[t] = ("dir", d_)
                    keysets[t] = dir_model(d_)
                    add({"op": "add", "r": c, "member": t, "via": g.choice(["lshift", "add_registry"]), "overlap": bool(set(keysets[t]) & set(keysets[c])), "repeat": False})
                    for kk, src in keysets[t].items():
                        keysets[c].setdefault(kk, src)
                    handles[c][1].append(t)
                    handles[t] = None      # temporaries are not used by later random operations
                if prev_t:
                    add({"op": "drop", "r": prev_t})
                add({"op": g.choice(["iter", "keys"]), "r": c})
                add({"op": "len", "r": c})
            continue
        if x < 0.08 and len(combined) < 2:
            h = "c%d" % len(combined)
            add({"op": "combined", "r": h})
            handles[h] = ("combined", [])
            keysets[h] = {}
            combined.append(h)
        elif x < 0.30 and combined:
            c = g.choice(combined)

            def contains_(a_, b_, seen=()):
                # does combination a_ (transitively) contain b_?  (no cyclic combinations: a live-union
                # design cannot serve them, and the statement does not speak of them)
                if a_ in seen or handles.get(a_) is None or handles[a_][0] != "combined":
                    return False
                return any(m_ == b_ or contains_(m_, b_, seen + (a_,)) for m_ in handles[a_][1])

            cands = [h for h in live if h != c and not contains_(h, c)]
            if not cands:
                continue
            m = g.choice(cands)
            mk = keysets[m]
            overlap = bool(set(mk) & set(keysets[c]))
            repeat = m in handles[c][1]
            op = add({"op": "add", "r": c, "member": m, "via": g.choice(["lshift", "add_registry"]), "overlap": overlap, "repeat": repeat})
            handles[c][1].append(m)
            for kk, src in mk.items():
                if kk in keysets[c] and keysets[c][kk] != src:
                    contested.setdefault(c, set()).add(kk)   # two members hold different plasmids under this id
                keysets[c].setdefault(kk, src)
            for cc in combined:
                if m in contested and cc == c:
                    contested.setdefault(c, set()).update(contested[m])
            if faulty and fl.random() < 0.35:
                _plan_fault(fl, faults, op, handles[m], len(mk))
                if fl.random() < 0.5:
                    # the caller catches the error and adds the same member again, then looks
                    add({"op": "add", "r": c, "member": m, "via": op["via"], "overlap": True, "repeat": True, "retry": True})
                    handles[c][1].append(m)
                    add({"op": g.choice(["iter", "len", "keys"]), "r": c})
        elif x < 0.34 and live:
            h = g.choice(live)
            if handles[h][0] != "combined" and g.random() < 0.5:
                add({"op": "drop", "r": h})
                handles[h] = None
            elif handles[h][0] == "embedded":
                h2 = "r%d" % len(handles)
                add({"op": "embedded", "r": h2, "kind": handles[h][1], "second": True})
                handles[h2] = handles[h]
                keysets[h2] = dict(keysets[h])
        elif live:
            h = g.choice(live)
            kind = handles[h][0]
            y = g.random()
            if y < 0.05:
                op = add({"op": "iter_partial", "r": h, "n": g.choice([0, 1, 1, 2, 5])})
            elif y < 0.07 and len(keysets[h]) <= 30:
                op = add({"op": "iter_nested", "r": h})
            elif y < 0.12:
                op = add({"op": "len", "r": h})
            elif y < 0.24:
                op = add({"op": g.choice(["iter", "keys"]), "r": h})
            elif y < 0.30 and (kind != "embedded" or handles[h][1] in ("ptk",)) and len(keysets[h]) <= 25:
                op = add({"op": g.choice(["values", "items"]), "r": h})
            else:
                d = handles[h][1] if kind == "dir" else None
                others = [kk for h2 in live if h2 != h for kk in list(keysets[h2])[:3] if kk not in keysets[h]]
                key, kc = g.choice(_keys_for(g, d, keysets[h], others[:3]))
                if contested.get(h) and g.random() < 0.5:
                    key, kc = g.choice(sorted(contested[h])), "contested"
                if kc in ("path-like", "path-backref", "path-into-subdir") and spec.get("no_path_keys"):
                    continue
                op = add({"op": g.choice(["getitem", "getitem", "contains", "get"]), "r": h, "key": key, "key_class": kc})
            if faulty and fl.random() < 0.25:
                _plan_fault(fl, faults, op, handles[h], len(keysets[h]))
    return case


def _plan_fault(fl, faults, op, hinfo, nkeys):
    kind = hinfo[0]
    exc = fl.choice(["os", "fs"])
    if kind == "dir":
        seam = fl.choice(["scandir", "scandir-entry", "getinfo", "openbin", "read"])
        if seam == "read":
            faults.append({"op": op["id"], "seam": "read", "offset": fl.choice([0, 1, 100, 2000, fl.randrange(0, 6000)]), "exc": "os"})
        elif seam == "scandir-entry":
            faults.append({"op": op["id"], "seam": seam, "occurrence": fl.randrange(0, max(1, nkeys + 2)), "exc": exc})
        else:
            faults.append({"op": op["id"], "seam": seam, "occurrence": fl.choice([0, 0, 1, 2, fl.randrange(0, 2 * nkeys + 2)]), "exc": exc})
    elif kind == "embedded":
        if fl.random() < 0.2:
            faults.append({"op": op["id"], "seam": "archive-open", "occurrence": 0, "exc": "os"})
        else:
            faults.append({"op": op["id"], "seam": "archive-read", "offset": fl.choice([0, 10, 512, fl.randrange(0, 20000), fl.randrange(0, 100000)]), "exc": "os"})
    else:
        faults.append({"op": op["id"], "seam": fl.choice(["scandir", "getinfo", "openbin", "archive-read"]), "occurrence": 0, "offset": fl.randrange(0, 5000), "exc": exc})


def plan(tier, verif_seed, scale=1.0):
    specs = []
    idx = 0
    for kind in ("ptk", "ytk", "cidar", "ecoflex", "plant"):
        specs.append({"index": idx, "seed": kernel.run_seed(verif_seed, PROP, tier, idx), "mode": "sweep", "kind": kind})
        idx += 1
    n_ff, n_f = (700, 700) if tier == "quick" else (12000, 14000)
    for j in range(max(1, int(n_ff * scale))):
        specs.append({"index": idx, "seed": kernel.run_seed(verif_seed, PROP, tier, idx), "mode": "random", "faulty": False})
        idx += 1
    for j in range(max(1, int(n_f * scale))):
        specs.append({"index": idx, "seed": kernel.run_seed(verif_seed, PROP, tier, idx), "mode": "random", "faulty": True})
        idx += 1
    return specs


def simplifiers():
    def drop_entries(case):
        cat = case["catalogue"]
        for di, d in enumerate(cat["dirs"]):
            for ei in range(len(d["entries"])):
                dirs = list(cat["dirs"])
                dirs[di] = dict(d, entries=d["entries"][:ei] + d["entries"][ei + 1:])
                yield dict(case, catalogue=dict(cat, dirs=dirs))

    def plain_store(case):
        if case.get("store", {}).get("chunk") != [1 << 20, 1 << 20]:
            yield dict(case, store={"chunk": [1 << 20, 1 << 20], "permute": False})

    return [plain_store, drop_entries]


def catalogue_summary(case):
    return {"dirs": [{"id": d["id"], "base": d["base"], "extensions": d["extensions"], "entries": [e["name"] + ("/" if e["kind"] == "dir" else "") for e in d["entries"]]} for d in case["catalogue"]["dirs"]], "store": case.get("store")}


EXPECTED_PROBES = {"C20": ["directory-plasmid-looked-up", "key:contested", "add-retried-after-fault", "temporary-member-released-after-add", "abandoned-iteration", "same-plasmid-under-two-stems", "file-with-extra-label", "add-overlapping-member", "add-repeated-member", "second-equal-embedded-instance", "key:present", "key:absent-random", "key:unsupported-ext", "key:subdir", "key:non-string", "key:key-with-extension", "op-after-fault", "op-on-registry-that-saw-a-fault"]}


def coverage_extra(prop, stats, probes):
    return {
        "faults": {"fired": {k[6:]: v for k, v in stats.items() if k.startswith("fired:")}, "faulted_ops": stats.get("faulted_ops", 0), "faulted_ops_raised": stats.get("faulted_op_raised", 0), "faulted_ops_returned_a_value": stats.get("faulted_op_returned", 0)},
        "legal_nondeterminism": {"listings_permuted": stats.get("listing-permuted", 0), "short_reads_dir_files": stats.get("short-read:read", 0), "short_reads_archive": stats.get("short-read:archive-read", 0)},
        "real_osfs_directories": stats.get("real-osfs-directory", 0),
        "embedded_sweep": {"exhaustive": True, "registries": 5, "note": "every key of every embedded registry is looked up once per check (runs 0-4)"},
    }


def describe(prop):
    return (
        "exploration",
        "Each case is one simulated run: 1-3 directories on a simulated store (real kit GenBank bytes under fresh stems with supported/unsupported extensions, sub-directories - some named like plasmid files -, junk files, stems shared between directories and with embedded keys), 0-2 embedded kit registries (archives built by the repo's own build_ext, read through a seeded short-read stream), 0-2 combined registries; 10-50 operations (open, new equal embedded instance, drop, add/<< with overlapping and repeated members, len/iter/keys/values/items, getitem/contains/get with present, absent, unsupported-extension, sub-directory, extension-carrying, non-string and path-like keys). Every listing is a fresh seeded permutation, every read a seeded short count. Half of the runs inject I/O errors (scandir, mid-listing, getinfo, openbin, byte offset of a file or archive read) inside operations; a faulted operation may raise anything but must not return wrong data, an interrupted add may have applied any prefix, and every later operation must be exact again. Five additional runs sweep every key of every embedded registry (exhaustive). Oracle: dictionaries built from the generator's bookkeeping and the .gb sources parsed with Biopython only. Distinct = distinct run digest; non-trivial = the run combined overlapping members, or hit an injected fault, or looked up both present and absent keys.",
        ["inputs stay inside the statement's precondition: typed plasmids, distinct stems per directory, case-sensitive store, hashable keys",
         "resistance is judged against the label->antibiotic table of the kits' annotation convention (KanR/KnR, CamR/CmR, AmpR, SmR/SpecR)",
         "the storage medium is a stub (MemoryFS primitives, in-memory archive bytes); the readers above it are the real ones",
         "sampled configurations and histories (plus an exhaustive sweep of embedded items): evidence, not proof"],
    )


STATE_MEASURE = 'distinct (operation, key class, fault fired?, oracle failed?, any fault seen earlier in the run?) tuples'


EXPECTED_STATS = {"C20": ["seam:archive-open", "seam:scandir", "seam:openbin", "short-read:archive-read", "short-read:read",
                          "fired:archive-read", "fired:archive-open", "fired:scandir", "fired:scandir-entry", "fired:openbin", "fired:read", "real-osfs-directory"]}
