# coding: utf-8
"""`typing` world — C06: typing verdicts do not depend on what was typed before.

System under test (real): moclo core + the five kit modules, imported from the
scratch copy; Biopython; property_cached.  Simulated: 1-3 clients issuing
pre-generated operation scripts against the *process-global* class state, a
seeded scheduler interleaving them.  Oracle: the same query issued as the first
call in a process forked from the never-used template, after replaying only the
class definitions that precede it.
"""
from __future__ import annotations

import inspect
import json
import os

from .. import dna, kernel
from ..kernel import h64, stream

PROP = "C06"
METHODS = ["is_valid", "overhang_start", "overhang_end", "target", "placeholder"]
GENERIC_BASES = ["Product", "Entry", "Cassette", "Device", "EntryVector", "CassetteVector", "DeviceVector"]
GENERIC_CUTTERS = ["BsaI", "BsmBI", "BpiI", "SapI"]
KIT_MODULES = ["ytk", "cidar", "ecoflex", "moclo", "plant"]
# which registries' plasmids belong to which kit module (for workload bias)
KIT_REGS = {"ytk": ["ytk", "ptk"], "cidar": ["cidar"], "ecoflex": ["ecoflex"], "moclo": ["plant"], "plant": ["plant"]}

W = {}  # world state built once in the template: classes, records, relations


# --------------------------------------------------------------------------
# template initialisation (never validates anything)


def init(scratch, tier="quick"):
    import Bio.SeqIO
    import Bio.Restriction
    import moclo.core as core
    from moclo.core._structured import StructuredRecord
    from moclo.record import CircularRecord
    from Bio.Seq import Seq

    W.clear()
    W["scratch"] = scratch
    classes = {}
    meta = {}
    order = []
    for km in KIT_MODULES:
        mod = __import__("moclo.kits." + km, fromlist=["x"])
        members = [c for _, c in inspect.getmembers(mod, inspect.isclass) if c.__module__ == mod.__name__ and issubclass(c, StructuredRecord)]
        # definition order (source line) so that ids are stable
        members.sort(key=lambda c: inspect.getsourcelines(c)[1])
        for c in members:
            cid = "kit:%s.%s" % (km, c.__name__)
            classes[cid] = c
            meta[cid] = {"id": cid, "kind": "kit", "module": km, "qualname": c.__name__}
            order.append(cid)
    for b in GENERIC_BASES:
        for cu in GENERIC_CUTTERS:
            cid = "gen:%s:%s" % (b, cu)
            cls = type(str("Gen%s_%s" % (b, cu)), (getattr(core, b),), {"cutter": getattr(Bio.Restriction, cu), "__module__": "simdefs"})
            classes[cid] = cls
            meta[cid] = {"id": cid, "kind": "generic", "base": b, "cutter": cu}
            order.append(cid)
    W["classes"], W["cmeta"], W["corder"] = classes, meta, order
    W["rev"] = {c: cid for cid, c in classes.items()}

    # records: every kit plasmid, parsed with Biopython only
    records, rmeta, by_reg = {}, {}, {}
    for reg, files in build_gb(scratch).items():
        for stem, path in files.items():
            rid = "kit:%s/%s" % (reg, stem)
            rec = Bio.SeqIO.read(path, "gb")
            records[rid] = CircularRecord(rec)
            rmeta[rid] = {"id": rid, "source": os.path.relpath(path, scratch), "len": len(rec.seq)}
            by_reg.setdefault(reg, []).append(rid)
    W["records"], W["rmeta"], W["by_reg"] = records, rmeta, by_reg

    # static relations between classes (pure reflection)
    rel_anc = {}
    for cid, c in classes.items():
        rel_anc[cid] = [W["rev"][b] for b in c.__mro__[1:] if b in W["rev"]]
    W["ancestors"] = rel_anc
    W["abstract_bases"] = [cid for cid, c in classes.items() if meta[cid]["kind"] == "kit" and c.__name__ in ("YTKPart", "CIDARPart", "EcoFlexPart", "MoCloPart")]
    W["accepts"] = None
    W["oracle_memo"] = {}
    return W


def build_gb(scratch):
    from .. import build

    return build.gb_sources(scratch)


def _accepts_for_class(cid):
    """(child) which kit plasmids class `cid` accepts; used for workload
    selection and reach accounting only, never as an oracle."""
    cls = W["classes"][cid]
    out = []
    for rid, rec in W["records"].items():
        try:
            if cls(rec).is_valid():
                out.append(rid)
        except Exception:
            pass
    return out


def _accepts_task(cid):
    return kernel.fork_call(_accepts_for_class, (cid,), timeout=120, what="accepts-table " + cid)


def build_accepts(workers=None):
    acc = {}
    for status, cid, res in kernel.pool_map(_accepts_task, list(W["corder"]), workers=workers, chunk=2):
        if status != "ok":
            raise kernel.HarnessError("accepts table: %s" % res)
        acc[cid] = set(res)
    W["accepts"] = acc
    return acc


# --------------------------------------------------------------------------
# catalogue helpers


def related_pairs():
    """Ordered pairs (A, B) of catalogue classes that share code or data:
    ancestor/descendant and siblings under one kit base."""
    out = []
    anc = W["ancestors"]
    ids = W["corder"]
    for b in ids:
        for a in anc[b]:
            out.append((a, b, "anc>desc"))
            out.append((b, a, "desc>anc"))
    for i, a in enumerate(ids):
        for b in ids[i + 1:]:
            if a in anc[b] or b in anc[a]:
                continue
            common = [x for x in anc[a] if x in anc[b]]
            if common:
                out.append((a, b, "sibling"))
                out.append((b, a, "sibling"))
    return out


def separating(a, b, rng, want=None):
    """A kit plasmid accepted by exactly one of a, b (None if there is none)."""
    acc = W["accepts"]
    if acc is None or a not in acc or b not in acc:
        return None
    if want == "a-only":
        cand = sorted(acc[a] - acc[b])
    elif want == "b-only":
        cand = sorted(acc[b] - acc[a])
    else:
        cand = sorted(acc[a] ^ acc[b])
    return rng.choice(cand) if cand else None


# --------------------------------------------------------------------------
# class/record resolution inside a process (run child or oracle child)


class Env(object):
    def __init__(self, case):
        self.case = case
        self.defined = {}
        self.handles = {}
        self.synth = {}
        for r in case["catalogue"].get("synthetic", []):
            self.synth[r["id"]] = r
        self._recs = {}

    def cls(self, cid):
        if cid in self.defined:
            return self.defined[cid]
        return W["classes"][cid]

    def cid_of(self, cls):
        for k, v in self.defined.items():
            if v is cls:
                return k
        return W["rev"].get(cls, "%s.%s" % (cls.__module__, cls.__name__))

    def rec(self, rid, fresh=False):
        if rid in self._recs and not fresh:
            return self._recs[rid]
        from moclo.record import CircularRecord
        from Bio.Seq import Seq
        from Bio.SeqRecord import SeqRecord

        if rid in self.synth:
            s = self.synth[rid]
            ann = {"topology": s.get("topology", "circular"), "molecule_type": "DNA"}
            rec_id = s.get("rec_id", rid)
            seq_obj = Seq(s["seq"]) if not s.get("undefined") else Seq(None, length=len(s["seq"]))
            if s.get("share_seq") and not fresh:
                seq_obj = self.rec(s["share_seq"]).seq   # the twin was built from the other record's Seq object
            if s.get("topology", "circular") == "circular":
                r = CircularRecord(seq_obj, id=rec_id, name=rec_id, annotations=ann)
            else:
                r = SeqRecord(seq_obj, id=rec_id, name=rec_id, annotations=ann)
        elif "@" in rid:
            base, k = rid.rsplit("@", 1)
            src = W["records"][base]
            r = CircularRecord(Seq(dna.rotate_right(str(src.seq), int(k))), id=src.id, name=src.name, annotations={"topology": "circular", "molecule_type": "DNA"})
        elif fresh:
            src = W["records"][rid]
            r = CircularRecord(Seq(str(src.seq)), id=src.id, name=src.name, annotations={"topology": "circular", "molecule_type": "DNA"})
        else:
            r = W["records"][rid]
        if not fresh:
            self._recs[rid] = r
        return r

    def define(self, spec):
        import Bio.Restriction

        attrs = {"__module__": "simdefs"}
        a = spec.get("attrs", {})
        if "signature" in a:
            attrs["signature"] = tuple(a["signature"])
        if "cutter" in a:
            attrs["cutter"] = getattr(Bio.Restriction, a["cutter"])
        if "structure" in a:
            lit = a["structure"]
            attrs["structure"] = staticmethod(lambda lit=lit: lit)
        bases = tuple(self.cls(b) for b in spec["bases"])
        cls = type(str(spec["name"]), bases, attrs)
        self.defined[spec["id"]] = cls
        return cls


def _canon_exc(exc):
    return {"exc": type(exc).__name__}


def call_method(env, inst, method):
    try:
        if method == "is_valid":
            return bool(inst.is_valid())
        if method == "overhang_start":
            return {"seq": str(inst.overhang_start())}
        if method == "overhang_end":
            return {"seq": str(inst.overhang_end())}
        if method == "target":
            return {"seq": str(inst.target_sequence().seq)}
        if method == "placeholder":
            return {"seq": str(inst.placeholder_sequence().seq)}
        raise ValueError(method)
    except Exception as exc:
        return _canon_exc(exc)


def do_characterize(env, cid, rid, fresh=False):
    try:
        ent = env.cls(cid).characterize(env.rec(rid, fresh))
        return {"type": env.cid_of(type(ent))}
    except Exception as exc:
        return _canon_exc(exc)


def do_structure(env, cid):
    try:
        return {"str": str(env.cls(cid).structure())}
    except Exception as exc:
        return _canon_exc(exc)


def do_new(env, cid, rid, fresh=False):
    try:
        return env.cls(cid)(env.rec(rid, fresh)), "ok"
    except Exception as exc:
        return None, _canon_exc(exc)


# --------------------------------------------------------------------------
# oracle: ONE query as the first call in a pristine fork


def _oracle_child(case_cat, defines, query):
    env = Env({"catalogue": case_cat})
    for d in defines:
        try:
            env.define(d)
        except Exception:
            pass  # as in the run child: a definition the library rejects leaves the class undefined
    kind = query[0]
    if kind == "new":
        _, out = do_new(env, query[1], query[2])
        return out
    if kind == "call":
        inst, out = do_new(env, query[1], query[2])
        if inst is None:
            return {"skip": "no-handle"}   # same sentinel as the run child: the constructor itself raised
        return call_method(env, inst, query[3])
    if kind == "characterize":
        return do_characterize(env, query[1], query[2])
    if kind == "structure":
        return do_structure(env, query[1])
    raise ValueError(kind)


def oracle(case, defines, query):
    synth = {r["id"]: r for r in case["catalogue"].get("synthetic", [])}
    rid = query[2] if len(query) > 2 and query[0] != "structure" else None
    need = []
    if rid in synth:
        need = [synth[rid]]
        if synth[rid].get("share_seq") in synth:
            need.append(synth[synth[rid]["share_seq"]])   # the record whose Seq object this twin shares
    key = kernel.canon([defines, query, need])
    memo = W["oracle_memo"]
    if key in memo:
        return memo[key], False
    cat = {"synthetic": need} if need else {}
    out = kernel.fork_call(_oracle_child, (cat, defines, query), timeout=30, what="oracle")
    if len(memo) < 200000:
        memo[key] = out
    return out, True


# --------------------------------------------------------------------------
# run child: the whole history in one process


def _run_child(case):
    env = Env(case)
    out = []
    for op in case["ops"]:
        k = op["op"]
        if k == "define":
            try:
                env.define(op["cls"])
                res = "ok"
            except Exception as exc:
                res = _canon_exc(exc)
        elif k == "new":
            inst, res = do_new(env, op["cls"], op["rec"], bool(op.get("fresh")))
            env.handles[op["h"]] = inst
        elif k == "drop":
            env.handles.pop(op["h"], None)
            res = "ok"
        elif k == "call":
            inst = env.handles.get(op["h"])
            res = {"skip": "no-handle"} if inst is None else call_method(env, inst, op["method"])
        elif k == "characterize":
            res = do_characterize(env, op["cls"], op["rec"], bool(op.get("fresh")))
        elif k == "structure":
            res = do_structure(env, op["cls"])
        elif k == "prime_registry":
            # priming only: loading an embedded registry validates / characterises every plasmid
            mod, cls = {"ytk": ("ytk", "YTKRegistry"), "ptk": ("ytk", "PTKRegistry"), "cidar": ("cidar", "CIDARRegistry"), "ecoflex": ("ecoflex", "EcoFlexRegistry"), "plant": ("plant", "PlantRegistry")}[op["kind"]]
            try:
                reg = getattr(__import__("moclo.registry." + mod, fromlist=["x"]), cls)()
                first = next(iter(reg))
                res = {"loaded": reg[first].id == first, "n": len(reg)}
            except Exception as exc:
                res = _canon_exc(exc)
        elif k == "assemble":
            vec = env.handles.get(op["vec"])
            mods = [env.handles.get(h) for h in op["mods"]]
            if vec is None or not mods or any(m is None for m in mods):
                res = {"skip": "no-handle"}
            else:
                import warnings

                try:
                    with warnings.catch_warnings():
                        warnings.simplefilter("ignore")
                        prod = vec.assemble(*mods)
                    res = {"product": kernel.digest_of(str(prod.seq))[:16]}
                except Exception as exc:
                    res = _canon_exc(exc)
        else:
            raise ValueError(k)
        out.append(res)
    return out


# --------------------------------------------------------------------------
# execute a case: oracle answers (pristine forks) vs. the run child


def _known_class(case_defs_so_far, cid):
    return cid in W["classes"] or cid in case_defs_so_far


def execute(case):
    ops = case["ops"]
    defines, defined_ids = [], set()
    handle_of = {}
    expected = []
    stats = kernel.Counter()
    asked = []  # (class id, record id) history, for probes and abstract states
    states = set()
    probes = kernel.Counter()
    for i, op in enumerate(ops):
        k = op["op"]
        exp = None
        if k == "define":
            spec = op["cls"]
            if all(_known_class(defined_ids, b) for b in spec["bases"]) and spec["id"] not in defined_ids and spec["id"] not in W["classes"]:
                defines = defines + [spec]
                defined_ids.add(spec["id"])
            else:
                op = dict(op, invalid=True)
        elif k == "new":
            if _known_class(defined_ids, op["cls"]):
                handle_of[op["h"]] = (op["cls"], op["rec"])
                if op.get("fresh"):
                    probes["fresh-record-object"] += 1
                exp, forked = oracle(case, defines, ["new", op["cls"], op["rec"]])
                stats["oracle_forks"] += forked
            else:
                handle_of.pop(op["h"], None)
        elif k == "prime_registry":
            probes["registry-loaded-before-queries"] += 1
        elif k == "drop":
            handle_of.pop(op["h"], None)
            probes["drop-handle"] += 1
        elif k == "call":
            if op["h"] in handle_of:
                cid, rid = handle_of[op["h"]]
                exp, forked = oracle(case, defines, ["call", cid, rid, op["method"]])
                stats["oracle_forks"] += forked
                _probe(probes, states, asked, cid, rid, defined_ids, case)
                asked.append((cid, rid))
        elif k == "characterize":
            if _known_class(defined_ids, op["cls"]):
                exp, forked = oracle(case, defines, ["characterize", op["cls"], op["rec"]])
                stats["oracle_forks"] += forked
                probes["characterize"] += 1
                if defines:
                    probes["characterize-after-define"] += 1
                asked.append((op["cls"], op["rec"]))
        elif k == "structure":
            if _known_class(defined_ids, op["cls"]):
                exp, forked = oracle(case, defines, ["structure", op["cls"]])
                stats["oracle_forks"] += forked
        expected.append(exp)
    # sanitise the script the same way for the child (ops on unknown classes are no-ops)
    run_case = dict(case)
    run_ops = []
    d2 = set()
    for op in ops:
        if op["op"] == "define":
            spec = op["cls"]
            if all(_known_class(d2, b) for b in spec["bases"]) and spec["id"] not in d2 and spec["id"] not in W["classes"]:
                d2.add(spec["id"])
                run_ops.append(op)
            else:
                run_ops.append({"op": "structure", "cls": "kit:ytk.YTKPart", "id": op.get("id"), "client": op.get("client"), "noop": True})
        elif op["op"] in ("new", "characterize", "structure") and not _known_class(d2, op["cls"]):
            run_ops.append({"op": "call", "h": "__none__", "method": "is_valid", "id": op.get("id"), "client": op.get("client"), "noop": True})
        else:
            run_ops.append(op)
    run_case["ops"] = run_ops
    observed = kernel.fork_call(_run_child, (run_case,), timeout=60, what="typing run")
    log = kernel.EventLog(keep=False)
    failures = []
    for i, (op, exp, obs) in enumerate(zip(ops, expected, observed)):
        log.append({"step": i, "id": op.get("id"), "client": op.get("client"), "op": op["op"], "observed": obs, "expected": exp})
        stats["ops"] += 1
        stats["op:" + op["op"]] += 1
        if exp is None:
            continue
        stats["observations"] += 1
        if obs != exp:
            failures.append({
                "property": PROP, "clause": "C06.history", "op": i, "op_id": op.get("id"),
                "expected": exp, "observed": obs,
                "signature": _signature(ops, i, handle_of_at(ops, i)),
            })
    return {
        "digest": log.digest(),
        "failures": failures[:5],
        "n_failures": len(failures),
        "stats": dict(stats),
        "probes": dict(probes),
        "states": sorted(states),
        "nontrivial": bool(probes.get("related-with-separating", 0)),
        "steps": len(ops),
        "schedule": h64("sched", tuple(op.get("client") for op in ops)) & ((1 << 48) - 1),
    }


def handle_of_at(ops, upto):
    m = {}
    for op in ops[: upto + 1]:
        if op["op"] == "new":
            m[op["h"]] = (op["cls"], op["rec"])
        elif op["op"] == "drop":
            m.pop(op["h"], None)
    return m


def _class_of_op(op, hmap):
    if op["op"] == "call":
        return hmap.get(op["h"], (None, None))[0]
    if op["op"] in ("characterize", "structure", "new"):
        return op["cls"]
    return None


def _relation(a, b, case_ops):
    """relation of earlier class a to queried class b (catalogue + defined)."""
    anc = dict(W["ancestors"])
    names = {}
    for op in case_ops:
        if op["op"] == "define":
            s = op["cls"]
            al = []
            for bb in s["bases"]:
                al.append(bb)
                al.extend(anc.get(bb, []))
            anc[s["id"]] = al
            names[s["id"]] = s["name"]
    if a == b:
        return "same"
    if a in anc.get(b, []):
        return "ancestor"
    if b in anc.get(a, []):
        return "descendant"
    if set(anc.get(a, [])) & set(anc.get(b, [])):
        return "sibling"
    if names.get(a) and names.get(a) == names.get(b):
        return "same-name"
    return "unrelated"


def _signature(ops, i, hmap):
    q = _class_of_op(ops[i], hmap)
    rels = set()
    hm = {}
    for op in ops[:i]:
        if op["op"] == "new":
            hm[op["h"]] = (op["cls"], op["rec"])
        c = _class_of_op(op, hm) if op["op"] != "new" else None
        if c is not None and q is not None:
            rels.add(_relation(c, q, ops))
    for pref in ("ancestor", "descendant", "sibling", "same-name", "same", "unrelated"):
        if pref in rels:
            return "prime:%s->query:%s" % (pref, ops[i]["op"] if ops[i]["op"] != "call" else ops[i]["method"])
    return "prime:none->query:%s" % ops[i]["op"]


def _probe(probes, states, asked, cid, rid, defined_ids, case):
    acc = W["accepts"] or {}
    seen_classes = set(c for c, _ in asked)
    states.add(h64("st", kernel.canon(sorted(seen_classes)), cid) & ((1 << 48) - 1))
    if cid in seen_classes:
        probes["requery-same-class"] += 1
    anc_of = W["ancestors"]
    for c in seen_classes:
        if c == cid:
            continue
        rel = None
        if c in anc_of.get(cid, []):
            rel = "ancestor-before-descendant"
        elif cid in anc_of.get(c, []):
            rel = "descendant-before-ancestor"
        elif set(anc_of.get(c, [])) & set(anc_of.get(cid, [])):
            rel = "sibling-before-sibling"
        if rel:
            probes[rel] += 1
            base_rid = rid.split("@")[0]
            if c in acc and cid in acc and ((base_rid in acc[c]) != (base_rid in acc[cid])):
                probes[rel + "+separating"] += 1
                probes["related-with-separating"] += 1
    if cid in defined_ids:
        probes["query-defined-class"] += 1
        for d in case["ops"]:
            if d["op"] == "define" and d["cls"]["id"] == cid:
                if any(b in seen_classes for b in d["cls"]["bases"]):
                    probes["defined-subclass-of-primed-class"] += 1
                    if "cutter" in d["cls"].get("attrs", {}):
                        probes["recut-subclass-of-primed-class"] += 1
    if "@" in rid:
        probes["rotated-record"] += 1
    if rid.startswith("syn:"):
        probes["synthetic-record"] += 1


# --------------------------------------------------------------------------
# case generation (pure function of the spec)


def _kit_of(cid):
    m = W["cmeta"].get(cid)
    return m["module"] if m and m["kind"] == "kit" else None


def gen_case(spec):
    seed = spec["seed"]
    g = stream(seed, "gen")
    sch = stream(seed, "sched")
    cmeta = W["cmeta"]
    kits = g.sample(KIT_MODULES, g.choice([1, 1, 2]))
    if "plant" in kits and "moclo" not in kits:
        kits.append("moclo")
    kit_classes = [c for c in W["corder"] if cmeta[c]["kind"] == "kit" and cmeta[c]["module"] in kits]
    cutters = set()
    for c in kit_classes:
        cu = getattr(W["classes"][c], "cutter", None)
        if cu is not None and cu is not NotImplemented:
            cutters.add(cu.__name__)
    gen_classes = [c for c in W["corder"] if cmeta[c]["kind"] == "generic" and (cmeta[c]["cutter"] in cutters or g.random() < 0.1)]
    pool = []
    # related pairs first
    forced = spec.get("pair")
    if forced:
        pool.extend(forced)
    pairs = [(a, b) for a in kit_classes for b in W["ancestors"][a] if b in cmeta]
    g.shuffle(pairs)
    for a, b in pairs[: g.randint(2, 6)]:
        pool.extend([a, b])
    want = g.randint(6, 20)
    rest = kit_classes + gen_classes
    want = min(want, len(set(pool) | set(rest)))
    while len(set(pool)) < want and rest:
        pool.append(g.choice(rest))
    pool = list(dict.fromkeys(pool))

    # records
    regs = []
    for k in kits:
        regs.extend(KIT_REGS[k])
    regs = list(dict.fromkeys(regs))
    recs = []
    if forced and spec.get("pair_recs"):
        recs.extend(r for r in spec["pair_recs"] if r)
    rel = [(a, b) for a in pool for b in pool if a != b and (b in W["ancestors"].get(a, []) or set(W["ancestors"].get(a, [])) & set(W["ancestors"].get(b, [])))]
    g.shuffle(rel)
    for a, b in rel[: g.randint(2, 5)]:
        r = separating(a, b, g)
        if r:
            recs.append(r)
    allrecs = [r for rg in regs for r in W["by_reg"].get(rg, [])]
    want_recs = min(g.randint(3, 8), len(set(recs) | set(allrecs)))
    while len(set(recs)) < want_recs:
        recs.append(g.choice(allrecs))
    recs = list(dict.fromkeys(recs))
    # rotated variants of some
    for r in list(recs):
        if g.random() < 0.25:
            n = W["rmeta"][r]["len"]
            k = g.choice([1, 2, 3, 5, 7, 11, n // 2, n - 1, n - 4, g.randrange(n)])
            recs.append("%s@%d" % (r, k % n or 1))
    # synthetic members / near-misses for generic classes; `motifs` are short scripted
    # sequences woven into the random history (each needs several steps to line up)
    synthetic = []
    motifs = []
    for c in pool:
        if cmeta[c]["kind"] == "generic" and g.random() < 0.7:
            geom = dna.geometry(cmeta[c]["cutter"])
            vectorish = "Vector" in cmeta[c]["base"]
            made = []
            for variant in ["valid"] + g.sample(["valid", "near-miss", "illegal-site", "illegal-site"], g.randint(0, 2)):
                ovs = dna.overhangs(g, geom["ov"], 2)
                sid = "syn:%d" % len(synthetic)
                if vectorish:
                    seq, _ = dna.make_vector(g, geom, ovs[0], ovs[1], g.randint(4, 20), g.randint(10, 40))
                else:
                    seq, _ = dna.make_module(g, geom, ovs[0], ovs[1], g.randint(2, 20), g.randint(6, 40))
                if variant == "near-miss":  # corrupt one site letter
                    i = seq.find(geom["site"])
                    seq = seq[:i] + ("A" if seq[i] != "A" else "C") + seq[i + 1:]
                elif variant == "illegal-site":  # right structure plus an extra site inside the matched region:
                    # two candidate match starts, the leftmost one is illegal
                    i = seq.find(geom["site"]) + len(geom["site"]) + geom["gap"] + geom["ov"] + 1
                    seq = seq[:i] + g.choice([geom["site"], geom["site"], dna.rc(geom["site"])]) + dna.rand_dna(g, geom["gap"] + geom["ov"] + 2) + seq[i:]
                seq = dna.rotate_right(seq, g.randrange(len(seq)))
                topo = "circular" if g.random() < 0.85 else "linear"
                synthetic.append({"id": sid, "seq": seq, "topology": topo, "variant": variant})
                recs.append(sid)
                made.append(sid)
                if g.random() < 0.25:
                    # a twin with the same letters and the other topology (the same plasmid exported as a linear file)
                    tid = "syn:%d" % len(synthetic)
                    twin = {"id": tid, "seq": seq, "topology": "linear" if topo == "circular" else "circular", "variant": variant + "-twin", "rec_id": sid}
                    if g.random() < 0.5:
                        twin["share_seq"] = sid
                    synthetic.append(twin)
                    recs.append(tid)
                    if g.random() < 0.7:
                        motifs.append([("new", c, sid), ("call", "is_valid"), ("new", c, tid), ("call", "is_valid"), ("call", "overhang_start")])
                if topo == "linear" and g.random() < 0.6:
                    # a class of the other role touches the record first, then the class it was built for
                    other = [x for x in pool if cmeta[x]["kind"] == "generic" and cmeta[x]["cutter"] == cmeta[c]["cutter"] and ("Vector" in cmeta[x]["base"]) != vectorish]
                    other = other or [x for x in W["corder"] if cmeta[x]["kind"] == "generic" and cmeta[x]["cutter"] == cmeta[c]["cutter"] and ("Vector" in cmeta[x]["base"]) != vectorish]
                    if other:
                        motifs.append([("new", g.choice(other), sid), ("call", "is_valid"), ("new", c, sid), ("call", "is_valid")])
            if len(made) > 1 and g.random() < 0.7:
                # the same class matches several plasmids at different offsets, one after the other
                m_ = []
                for sid in made:
                    m_ += [("new", c, sid), ("call", "is_valid"), ("call", "overhang_start")]
                motifs.append(m_)

    if g.random() < 0.08:
        # a record whose letters are not available (a GenBank file without ORIGIN): every question
        # about it raises, the first time and every later time
        uid_ = "syn:%d" % len(synthetic)
        synthetic.append({"id": uid_, "seq": "N" * g.randint(40, 200), "topology": "circular", "undefined": True, "variant": "undefined-sequence"})
        recs.append(uid_)
        cls_u = g.choice(pool)
        motifs.append([("new", cls_u, g.choice([r_ for r_ in recs if r_ != uid_])), ("call", "is_valid"), ("new", cls_u, uid_), ("call", "is_valid"), ("new", cls_u, uid_), ("call", "is_valid"), ("call", "overhang_start")])

    n_clients = g.choice([1, 2, 2, 3])
    n_ops = g.randint(12, 60)
    ops = []
    handles = {c: [] for c in range(n_clients)}  # client -> [(h, cls, rec)]
    defined = []
    nh = {c: 10 for c in range(n_clients)}
    fresh_handles = set()
    last_drop = {}
    hints = {}
    name_pool = ["UserPartA", "UserPartB", "UserPartA"]  # repeated name on purpose

    def add(client, op):
        op["id"] = len(ops)
        op["client"] = client
        ops.append(op)

    # forced prefix for pair-indexed runs
    if forced:
        a, b = forced
        ra, rb = spec.get("pair_recs") or [None, None]
        ra = ra or g.choice(recs)
        rb = rb or g.choice(recs)
        add(0, {"op": "new", "h": "c0h0", "cls": a, "rec": ra})
        add(0, {"op": "call", "h": "c0h0", "method": "is_valid"})
        add(0, {"op": "new", "h": "c0h1", "cls": b, "rec": rb})
        add(0, {"op": "call", "h": "c0h1", "method": "is_valid"})
        add(0, {"op": "call", "h": "c0h1", "method": g.choice(["overhang_start", "overhang_end", "target"])})
        handles[0].extend([("c0h0", a, ra), ("c0h1", b, rb)])

    def pick_class():
        if defined and g.random() < 0.3:
            return g.choice(defined)["id"]
        cands = pool + [d["id"] for d in defined]
        return g.choice(cands)

    guard = 0
    g.shuffle(motifs)
    while len(ops) < n_ops and guard < 20 * n_ops:
        guard += 1
        client = sch.randrange(n_clients)
        hs = handles[client]
        x = g.random()
        if motifs and g.random() < 0.12:
            cur = None
            for step in motifs.pop():
                if step[0] == "new":
                    nh[client] += 1
                    cur = "c%dh%d" % (client, nh[client])
                    add(client, {"op": "new", "h": cur, "cls": step[1], "rec": step[2]})
                    hs.append((cur, step[1], step[2]))
                elif cur:
                    add(client, {"op": "call", "h": cur, "method": step[1]})
            continue
        if g.random() < 0.06:
            # a record is created, searched and released, and a new record of the same length
            # is created and searched next - consecutive steps of one client
            base_r = g.choice([r_ for r_ in recs if r_ in W["rmeta"]] or [None])
            if base_r:
                acc_ = W["accepts"] or {}
                cands_ = [c_ for c_ in pool if c_ in acc_ and base_r in acc_[c_]] or pool
                cls_ = g.choice(cands_)
                n_ = W["rmeta"][base_r]["len"]
                nh[client] += 2
                h1, h2 = "c%dh%d" % (client, nh[client] - 1), "c%dh%d" % (client, nh[client])
                if g.random() < 0.5:
                    add(client, {"op": "new", "h": h1, "cls": cls_, "rec": "%s@%d" % (base_r, g.randrange(1, n_)), "fresh": True})
                    add(client, {"op": "call", "h": h1, "method": "is_valid"})
                    add(client, {"op": "drop", "h": h1})
                else:
                    # the released record dies last when nothing wraps it any more: a failed
                    # characterisation leaves no entity behind
                    foreign = [b for b in W["abstract_bases"] if not any(base_r in acc_.get(c2, ()) for c2 in W["corder"] if b in W["ancestors"].get(c2, ()))]
                    add(client, {"op": "characterize", "cls": g.choice(foreign or W["abstract_bases"]), "rec": "%s@%d" % (base_r, g.randrange(1, n_)), "fresh": True})
                rid2 = "%s@%d" % (base_r, g.randrange(1, n_))
                add(client, {"op": "new", "h": h2, "cls": cls_, "rec": rid2, "fresh": True})
                add(client, {"op": "call", "h": h2, "method": "is_valid"})
                add(client, {"op": "call", "h": h2, "method": g.choice(["overhang_start", "overhang_end", "target"])})
                hs.append((h2, cls_, rid2))
                fresh_handles.add(h2)
            continue
        if x < 0.28 or not hs:
            cid = pick_class()
            # bias: a record that separates this class from one asked before
            rid = g.choice(recs)
            if hints.get(cid) and g.random() < 0.7:
                rid = g.choice(hints[cid])
            reuse = None
            if last_drop.get(client) and g.random() < 0.6:
                # a new record object of the same length right after one was released
                dc, dr = last_drop.pop(client)
                base_r = dr.split("@")[0]
                if base_r in W["rmeta"]:
                    n_ = W["rmeta"][base_r]["len"]
                    reuse = "%s@%d" % (base_r, g.randrange(1, n_))
                    if g.random() < 0.7:
                        cid = dc
            if hs and g.random() < 0.5 and cid in W["classes"]:
                prev = g.choice(hs)[1]
                if prev in W["classes"]:
                    s = separating(prev, cid, g)
                    if s:
                        rid = s
                        if s not in recs:
                            recs.append(s)
            nh[client] += 1
            h = "c%dh%d" % (client, nh[client])
            if reuse:
                rid = reuse
            op_new = {"op": "new", "h": h, "cls": cid, "rec": rid}
            if reuse or g.random() < 0.3:
                op_new["fresh"] = True
                fresh_handles.add(h)
            add(client, op_new)
            hs.append((h, cid, rid))
        elif x < 0.33 and len(hs) > 1:
            victim = hs.pop(g.randrange(len(hs)))
            add(client, {"op": "drop", "h": victim[0]})
            last_drop[client] = (victim[1], victim[2])
        elif x < 0.78:
            h = g.choice(hs)[0] if g.random() < 0.5 else hs[-1][0]
            add(client, {"op": "call", "h": h, "method": g.choice(["is_valid", "is_valid", "overhang_start", "overhang_end", "target", "placeholder"])})
        elif x < 0.86:
            bases = [c for c in pool + [d["id"] for d in defined] if (c in W["abstract_bases"]) or g.random() < 0.15]
            base = g.choice(bases) if bases else g.choice(W["abstract_bases"])
            add(client, {"op": "characterize", "cls": base, "rec": g.choice(recs)})
        elif x < 0.885:
            add(client, {"op": "prime_registry", "kind": g.choices(["ptk", "cidar", "ytk", "ecoflex", "plant"], [5, 2, 2, 2, 1])[0]})
        elif x < 0.90:
            add(client, {"op": "structure", "cls": pick_class()})
        elif x < 0.96 and len(defined) < 4:
            spec_d = _gen_define(g, pool, defined, name_pool)
            if spec_d:
                hints[spec_d["id"]] = spec_d.pop("hint_recs", [])
                for r_ in hints[spec_d["id"]]:
                    if r_ not in recs:
                        recs.append(r_)
                parent_ = spec_d.pop("prime_parent", None)
                defined.append(spec_d)
                if parent_ and hints[spec_d["id"]] and g.random() < 0.7:
                    # parent asked first (possibly before the definition), then the re-targeted subclass, same plasmid
                    r_ = g.choice(hints[spec_d["id"]])
                    pre = [("new", parent_, r_), ("call", "is_valid")]
                    post = [("new", spec_d["id"], r_), ("call", "is_valid"), ("call", g.choice(["overhang_start", "target", "is_valid"]))]
                    if g.random() < 0.5:
                        nh[client] += 1
                        cur_ = "c%dh%d" % (client, nh[client])
                        add(client, {"op": "new", "h": cur_, "cls": parent_, "rec": r_})
                        add(client, {"op": "call", "h": cur_, "method": "is_valid"})
                        hs.append((cur_, parent_, r_))
                        motifs.append(post)
                    else:
                        motifs.append(pre + post)
                add(client, {"op": "define", "cls": spec_d})
        else:
            vecs = [h for h, c, _ in hs if _is_vectorish(c, defined)]
            mods = [h for h, c, _ in hs if not _is_vectorish(c, defined)]
            if vecs and mods:
                add(client, {"op": "assemble", "vec": g.choice(vecs), "mods": g.sample(mods, min(len(mods), g.randint(1, 3)))})
    return {
        "format": 1, "world": "typing", "property": PROP, "run_seed": seed, "spec": {k: v for k, v in spec.items() if k != "seed"},
        "catalogue": {"classes": [cmeta[c] for c in pool], "records": [r for r in recs if not r.startswith("syn:")], "synthetic": synthetic},
        "ops": ops, "faults": [],
    }


def _is_vectorish(cid, defined):
    if cid in W["classes"]:
        from moclo.core.vectors import AbstractVector

        return issubclass(W["classes"][cid], AbstractVector)
    for d in defined:
        if d["id"] == cid:
            return any(_is_vectorish(b, defined) for b in d["bases"])
    return False


def _gen_define(g, pool, defined, name_pool):
    """A class defined during the run.  `hint_recs` (kit plasmids accepted by the
    class the signature was copied from, and by the model class) make the new
    class distinguishable from its relatives and namesakes."""
    cmeta = W["cmeta"]
    acc = W["accepts"] or {}
    kind = g.choice(["sig-under-kit-base", "subclass-of-concrete", "override-structure", "same-name", "same-name", "cross-role", "other-cutter"])
    parts = [c for c in pool if c in cmeta and cmeta[c]["kind"] == "kit" and W["ancestors"][c] and any(a in W["abstract_bases"] for a in W["ancestors"][c])]
    if not parts:
        return None
    model = g.choice(parts)
    mcls = W["classes"][model]
    cutter = getattr(mcls, "cutter", None)
    if cutter is None or cutter is NotImplemented:
        return None
    k = len(cutter.ovhgseq)
    sig_src = getattr(mcls, "signature", None)
    # siblings: kit parts with the same bases and their own signature
    sibs = [c for c in W["corder"] if c != model and cmeta[c]["kind"] == "kit" and W["classes"][c].__bases__ == mcls.__bases__
            and isinstance(W["classes"][c].__dict__.get("signature"), tuple)]
    hint = []

    def rnd_sig():
        c = g.random()
        if c < 0.45 and sibs:
            sib = g.choice(sibs)
            hint.extend(sorted(acc.get(sib, ()))[:40])
            return list(W["classes"][sib].signature)
        if c < 0.6:
            return ["N" * k, "N" * k]
        if c < 0.75 and sig_src not in (None, NotImplemented):
            return [sig_src[0], dna.rand_dna(g, k)]
        return [dna.rand_dna(g, k), dna.rand_dna(g, k)]

    def done(spec):
        hint.extend(sorted(acc.get(model, ()))[:40])
        spec["hint_recs"] = g.sample(hint, min(len(hint), 4)) if hint else []
        return spec

    did = "def:%d" % len(defined)
    bases = [W["rev"][b] for b in mcls.__bases__ if b in W["rev"]]
    if kind == "cross-role":
        # a vector flavour of a module part's signature (or the reverse), same cutter
        if len(bases) != len(mcls.__bases__):
            return None
        role = _is_vectorish(model, [])
        others = [c for c in W["corder"] if cmeta[c]["kind"] == "kit" and isinstance(W["classes"][c].__dict__.get("signature"), tuple)
                  and getattr(W["classes"][c], "cutter", None) is cutter and _is_vectorish(c, []) != role]
        if not others:
            return None
        other = g.choice(others)
        hint.extend(sorted(acc.get(other, ()))[:40])
        return done({"id": did, "name": "UserCross%d" % len(defined), "bases": bases, "attrs": {"signature": list(W["classes"][other].signature)}})
    if kind == "sig-under-kit-base":
        # same bases as the model part: (kit part base, kit module/vector class)
        if len(bases) != len(mcls.__bases__):
            return None
        return done({"id": did, "name": "UserPart%d" % len(defined), "bases": bases, "attrs": {"signature": rnd_sig()}})
    if kind == "subclass-of-concrete":
        return done({"id": did, "name": "UserSub%d" % len(defined), "bases": [model], "attrs": {"signature": rnd_sig()}})
    if kind == "other-cutter":
        # a concrete part re-targeted to another type IIS enzyme with the same overhang length: everything the
        # parent derives from its cutter (recognition sites, spacing) must be recomputed for the subclass
        alts = [cu for cu in ("BsaI", "BsmBI", "BpiI", "SapI", "BbsI", "Esp3I") if cu != cutter.__name__ and hasattr(__import__("Bio.Restriction").Restriction, cu)
                and dna.geometry(cu)["ov"] == k and dna.geometry(cu)["site"] != cutter.site]
        if not alts:
            return None
        attrs = {"cutter": g.choice(alts)}
        if g.random() < 0.3:
            attrs["signature"] = rnd_sig()
        spec = done({"id": did, "name": "UserRecut%d" % len(defined), "bases": [model], "attrs": attrs})
        spec["prime_parent"] = model
        return spec
    if kind == "override-structure":
        other = g.choice(parts)
        lit = structure_literal(other)
        if lit is None:
            return None
        hint.extend(sorted(acc.get(other, ()))[:40])
        return done({"id": did, "name": "UserStruct%d" % len(defined), "bases": [model], "attrs": {"structure": lit}})
    # same __name__ as another class (a kit class the user shadows, or an earlier user class)
    if len(bases) != len(mcls.__bases__):
        return None
    names = [mcls.__name__] + [d["name"] for d in defined] + name_pool
    return done({"id": did, "name": g.choice(names), "bases": bases, "attrs": {"signature": rnd_sig()}})


def _structure_child(cid):
    try:
        return str(W["classes"][cid].structure())
    except Exception:
        return None


def structure_literal(cid):
    """structure() string of a catalogue class, computed in a fork so that the
    generating process never executes moclo class code itself."""
    memo = W.setdefault("structure_memo", {})
    if cid not in memo:
        memo[cid] = kernel.fork_call(_structure_child, (cid,), timeout=30, what="structure literal")
    return memo[cid]


# --------------------------------------------------------------------------
# plan: which runs a tier executes (fixed counts; pure function of VERIF_SEED)


def plan(tier, verif_seed, scale=1.0):
    specs = []
    if tier == "quick":
        n_random, n_pairs = int(1200 * scale), int(400 * scale)
    else:
        n_random, n_pairs = int(36000 * scale), None
    for i in range(n_random):
        specs.append({"index": i, "seed": kernel.run_seed(verif_seed, PROP, tier, i), "mode": "random"})
    # pair-prefixed runs
    rel = related_pairs()
    ids = W["corder"]
    if n_pairs is None:
        pairs = [(a, b) for a in ids for b in ids if a != b and W["cmeta"][a]["kind"] == "kit" and W["cmeta"][b]["kind"] == "kit"]
        pairs += [(a, b) for a, b, _ in rel if not (W["cmeta"][a]["kind"] == "kit" and W["cmeta"][b]["kind"] == "kit")]
    else:
        r = stream(kernel.h64(verif_seed, PROP, tier, "pairs"), "pairs")
        relp = [(a, b) for a, b, _ in rel]
        pairs = r.sample(relp, min(len(relp), n_pairs * 3 // 4))
        while len(pairs) < n_pairs:
            a, b = r.choice(ids), r.choice(ids)
            if a != b:
                pairs.append((a, b))
    for j, (a, b) in enumerate(pairs):
        idx = n_random + j
        sd = kernel.run_seed(verif_seed, PROP, tier, idx)
        r = stream(sd, "pairrec")
        acc = W["accepts"] or {}
        ra = r.choice(sorted(acc[a])) if acc.get(a) else None
        rb = separating(a, b, r) or (r.choice(sorted(acc[b])) if acc.get(b) else None)
        specs.append({"index": idx, "seed": sd, "mode": "pair", "pair": [a, b], "pair_recs": [ra, rb]})
    return specs


def simplifiers():
    def drop_clients(case):
        clients = sorted(set(op.get("client") for op in case["ops"]))
        for c in clients:
            if len(clients) > 1:
                yield dict(case, ops=[op for op in case["ops"] if op.get("client") != c])

    def simpler_methods(case):
        for i, op in enumerate(case["ops"]):
            if op["op"] == "call" and op["method"] != "is_valid":
                ops = list(case["ops"])
                ops[i] = dict(op, method="is_valid")
                yield dict(case, ops=ops)

    return [drop_clients, simpler_methods]


def prepare():
    build_accepts()


def catalogue_summary(case):
    c = case["catalogue"]
    return {"classes": [x["id"] for x in c["classes"]][:12], "records": c["records"][:8], "synthetic": len(c["synthetic"])}


EXPECTED_PROBES = {"C06": ["drop-handle", "fresh-record-object", "ancestor-before-descendant+separating", "descendant-before-ancestor+separating", "sibling-before-sibling+separating", "characterize-after-define", "query-defined-class", "recut-subclass-of-primed-class", "rotated-record", "synthetic-record"]}


def post_checks(tier, verif_seed):
    """Fresh-interpreter cross-check of the fork oracle: a sample of queries is
    answered by really fresh interpreters (one process per query) and must
    agree with the answers of pristine forks."""
    import subprocess
    import sys

    n = 32 if tier == "quick" else 200
    r = stream(h64(verif_seed, "freshcheck"), "fresh")
    acc = W["accepts"] or {}
    queries = []
    ids = [c for c in W["corder"]]
    while len(queries) < n:
        cid = r.choice(ids)
        if acc.get(cid) and r.random() < 0.5:
            rid = r.choice(sorted(acc[cid]))
        else:
            rid = r.choice(sorted(W["records"]))
        queries.append(["call", cid, rid, r.choice(METHODS[:4])])
    script = os.path.join(os.path.dirname(os.path.dirname(os.path.abspath(__file__))), "fresh_query.py")
    env = dict(os.environ, PYTHONHASHSEED="random", PYTHONDONTWRITEBYTECODE="1")
    mismatches = []
    for i in range(0, n, 16):
        procs = [(q, subprocess.Popen([sys.executable, "-W", "ignore", script, W["scratch"], json.dumps(q)], env=env, stdout=subprocess.PIPE, stderr=subprocess.PIPE)) for q in queries[i:i + 16]]
        for q, p in procs:
            out, err = p.communicate(timeout=300)
            ans = None
            for line in out.decode().splitlines():
                if line.startswith("ANSWER "):
                    ans = json.loads(line[7:])
            if ans is None:
                raise kernel.HarnessError("fresh-interpreter query failed: %s" % err.decode()[-800:])
            forked = kernel.fork_call(_oracle_child, ({}, [], q), timeout=60, what="oracle")
            if forked != ans:
                mismatches.append({"query": q, "fork": forked, "fresh": ans})
    if mismatches:
        raise kernel.HarnessError("fork oracle disagrees with fresh interpreters: %s" % json.dumps(mismatches[:3]))
    return {"fork_oracle_vs_fresh_interpreter": {"queries": n, "mismatches": 0}}


STATE_MEASURE = 'distinct (set of classes asked so far, class asked now) pairs'


EXPECTED_STATS = {"C06": ["oracle_forks", "observations"]}
