# coding: utf-8
"""Generic check driver: plan -> seeded runs on the fork pool -> aggregate ->
minimise + replay files -> known findings -> evidence -> exit status.

Exit status: 0 property held on everything explored (KNOWN-FINDING lines do not
change it); 1 with `VIOLATION property=<id> replay=<path>`; 2 HARNESS-ERROR.
"""
from __future__ import annotations

import json
import os
import subprocess
import sys
import time

from . import build, kernel

VERIF = kernel.VERIF
CHECK = os.path.join(VERIF, "check")

COMPONENTS = {
    "real": [
        "moclo core/record/regex/registry.base + five kit modules and four kit registries (scratch copy of /repo's working tree)",
        "kit archives built by the kits' own setup.py build_ext",
        "Biopython 1.88 (SeqRecord, Restriction, GenBank parser)", "property_cached", "tarfile/gzip", "PyFilesystem FS base-class logic (filterdir/open/read_only)",
    ],
    "simulated": ["clients (pre-generated operation scripts)", "scheduler (seeded interleaving of client scripts)", "fault plan (seeded)", "storage medium: SimFS(MemoryFS) primitives + SimStream for pkg_resources.resource_stream (registry world)"],
    "model": ["pristine-fork oracle (C06)", "snapshot purity + fresh-process reference execution + citation index arithmetic (C07/C10)", "dictionary model parsed from the .gb sources with Biopython only (C20)"],
}


def _task(world):
    def task(spec):
        case = world.gen_case(spec)
        res = world.execute(case)
        res["index"] = spec["index"]
        res["seed"] = spec["seed"]
        res["mode"] = spec.get("mode")
        return res

    return task


def prepare(world, tier):
    t0 = time.monotonic()
    scratch = build.make_scratch()
    build.activate(scratch)
    world.init(scratch, tier)
    if hasattr(world, "prepare"):
        world.prepare()
    return scratch, time.monotonic() - t0


def same_failure_fn(world, prop, clause):
    def same(case):
        res = world.execute(case)
        return any(f["property"] == prop and f["clause"] == clause for f in res["failures"])

    return same


def first_failure(res, prop, clause=None):
    for f in res["failures"]:
        if f["property"] == prop and (clause is None or f["clause"] == clause):
            return f
    return None


def write_replay(world, prop, case, failure, tier, verif_seed, scratch, reproduced):
    rdir = os.environ.get("VERIF_REPLAY_DIR") or os.path.join(VERIF, "replays")
    os.makedirs(rdir, exist_ok=True)
    doc = dict(case)
    doc.update({
        "format": 1, "property": prop, "clause": failure["clause"], "signature": failure["signature"],
        "verif_seed": verif_seed, "tier": tier, "world": world.__name__.rsplit(".", 1)[-1],
        "build": dict(build.repo_head(), sha256_of_sources=build.source_digest(scratch)),
        "failure": {k: failure.get(k) for k in ("op", "op_id", "expected", "observed", "detail")},
        "reproduced": reproduced,
    })
    tag = kernel.digest_of([failure["clause"], failure.get("signature"), case.get("spec"), case.get("ops")])[:8]
    path = os.path.join(rdir, "%s-%s-%d-%s.json" % (prop, failure["clause"].split(".", 1)[-1], case.get("run_seed", 0), tag))
    with open(path, "w") as fh:
        json.dump(doc, fh, indent=1, sort_keys=True, default=kernel._default)
        fh.write("\n")
    return path


def replay_in_fresh_interpreter(prop, path):
    env = dict(os.environ)
    env["PYTHONHASHSEED"] = "random"
    env["VERIF_NO_REEXEC"] = "1"
    proc = subprocess.run([sys.executable, CHECK, prop, "--replay", path], env=env, stdout=subprocess.PIPE, stderr=subprocess.STDOUT, timeout=600)
    out = proc.stdout.decode("utf8", "replace")
    return proc.returncode == 1 and ("VIOLATION property=%s" % prop) in out, out


def do_replay(world, prop, path, tier="quick"):
    scratch, _ = prepare(world, tier)
    with open(path) as fh:
        case = json.load(fh)
    clause = case.get("clause")
    # a replay whose failure depends on state outside the simulator's control (flagged when it
    # was written) is attempted several times; every other replay is executed exactly once
    attempts = 5 if (case.get("reproduced") or {}).get("note") else 1
    for attempt in range(attempts):
        res = world.execute(case)
        f = first_failure(res, prop, clause)
        if f is not None:
            break
    print("REPLAY property=%s clause=%s digest=%s build_matches=%s" % (prop, clause, res["digest"][:16], case.get("build", {}).get("sha256_of_sources") == build.source_digest(scratch)))
    if f is not None:
        print("  op=%s expected=%s observed=%s" % (f.get("op"), json.dumps(f.get("expected"), default=str)[:300], json.dumps(f.get("observed"), default=str)[:300]))
        print("VIOLATION property=%s replay=%s" % (prop, path))
        return 1
    print("replay did not reproduce clause %s on this tree" % clause)
    return 0


def digests_only(world, prop, tier, verif_seed, indices, scale=1.0):
    prepare(world, tier)
    specs = {s["index"]: s for s in world.plan(tier, verif_seed, scale)}
    task = _task(world)
    out = {}
    for i in indices:
        out[str(i)] = task(specs[i])["digest"]
    print("DIGESTS " + json.dumps(out, sort_keys=True))
    return 0


def determinism_selftest(world, prop, tier, verif_seed, specs, pooled, n):
    """Re-run a sample: twice more in this process (1 worker), once in a freshly
    spawned interpreter under another PYTHONHASHSEED; all digests must agree
    with the digest obtained on the 16-worker pool."""
    idx = [s["index"] for s in specs[:: max(1, len(specs) // n)]][:n]
    by_index = {s["index"]: s for s in specs}
    task = _task(world)
    mismatches = []
    variants = 0
    for rep in range(2):
        for i in idx:
            d = task(by_index[i])["digest"]
            variants += 1
            if d != pooled.get(i):
                mismatches.append({"index": i, "variant": "serial-rerun-%d" % rep, "pool": pooled.get(i), "got": d})
    env = dict(os.environ)
    env["VERIF_NO_REEXEC"] = "1"
    env["VERIF_SEED"] = str(verif_seed)
    for hs in ("1", "random"):
        env["PYTHONHASHSEED"] = hs
        proc = subprocess.run([sys.executable, CHECK, prop, "--tier", tier, "--digests", ",".join(map(str, idx))], env=env, stdout=subprocess.PIPE, stderr=subprocess.PIPE, timeout=1800)
        got = None
        for line in proc.stdout.decode().splitlines():
            if line.startswith("DIGESTS "):
                got = json.loads(line[8:])
        if got is None:
            raise kernel.HarnessError("fresh-interpreter digest run failed: %s" % proc.stderr.decode()[-1500:])
        for i in idx:
            variants += 1
            if got.get(str(i)) != pooled.get(i):
                mismatches.append({"index": i, "variant": "fresh-interpreter-hashseed-" + hs, "pool": pooled.get(i), "got": got.get(str(i))})
    return {"seeds": len(idx), "variants_per_seed": 5, "comparisons": variants, "mismatches": mismatches,
            "variants": ["16-worker pool", "serial re-run x2 (1 worker)", "fresh interpreter PYTHONHASHSEED=1", "fresh interpreter PYTHONHASHSEED=random"]}


def run_check(world, prop, tier, verif_seed, level, rule, assumptions, scale=1.0):
    t0 = time.monotonic()
    print("VERIF_SEED=%d property=%s tier=%s PYTHONHASHSEED=%s" % (verif_seed, prop, tier, os.environ.get("PYTHONHASHSEED")))
    sys.stdout.flush()
    scratch, prep_s = prepare(world, tier)
    os.environ["VERIF_SCALE"] = repr(scale)
    specs = world.plan(tier, verif_seed, scale)
    task = _task(world)
    stats, probes = kernel.Counter(), kernel.Counter()
    states, digests, schedules = set(), set(), set()
    nontrivial_digests = set()
    pooled = {}
    failing = []  # (index, failure)
    other_prop = kernel.Counter()
    harness = []
    steps = 0
    wall_cap = float(os.environ.get("VERIF_WALL_CAP", "0")) or None
    t_runs = time.monotonic()
    for status, spec, res in kernel.pool_map(task, specs, chunk=8 if tier == "quick" else 16, wall_cap=wall_cap, progress=[60.0, 60.0]):
        if status != "ok":
            harness.append({"index": spec.get("index"), "error": str(res)[:2000]})
            continue
        pooled[res["index"]] = res["digest"]
        digests.add(res["digest"])
        if res.get("nontrivial", {}).get(prop) if isinstance(res.get("nontrivial"), dict) else res.get("nontrivial"):
            nontrivial_digests.add(res["digest"])
        stats.merge(res.get("stats"))
        probes.merge(res.get("probes"))
        steps += res.get("steps", 0)
        if len(states) < 3000000:
            states.update(res.get("states", ()))
        if res.get("schedule") is not None:
            schedules.add(res["schedule"])
        for f in res["failures"]:
            if f["property"] == prop:
                failing.append((res["index"], f))
            else:
                other_prop[f["property"] + ":" + f["clause"]] += 1
    runs_wall = time.monotonic() - t_runs
    if harness:
        print("HARNESS-ERROR %d run(s) could not be executed; first: %s" % (len(harness), harness[0]["error"][:1500]))
        return 2

    # ---- failures: minimise one representative per (clause, signature), newest first
    known = kernel.load_known()
    by_index = {s["index"]: s for s in specs}
    groups = {}
    for idx, f in sorted(failing, key=lambda t: t[0]):
        groups.setdefault((f["clause"], f["signature"]), []).append((idx, f))
    violations, known_hits, replays = [], [], []
    max_groups = int(os.environ.get("VERIF_MAX_MINIMISE", "4"))
    for (clause, sig), members in sorted(groups.items())[:max_groups]:
        idx, f = members[0]
        case = world.gen_case(by_index[idx])
        simp = world.simplifiers() if hasattr(world, "simplifiers") else ()
        mini = kernel.minimise(case, same_failure_fn(world, prop, clause), simp, max_candidates=300, max_seconds=60.0)

        def reproduce(c):
            r1, r2 = world.execute(c), world.execute(c)
            g1, g2 = first_failure(r1, prop, clause), first_failure(r2, prop, clause)
            return (g1 is not None) + (g2 is not None), (g1 or g2), g1 is not None and g2 is not None and r1["digest"] == r2["digest"]

        note = None
        n_fork, f1, stable = reproduce(mini)
        chosen = mini
        if not stable:
            # The minimised case does not replay identically.  On a tree where the determinism
            # self-test passes this means the failure depends on state the simulator does not own
            # (e.g. object addresses reused by the allocator).  Fall back to the original run.
            n_fork, f0, stable0 = reproduce(case)
            chosen = dict(case, minimised=None)
            f1 = f0 or f
            note = ("the failure was observed by the oracle in run index %d but %s; it depends on state outside the simulator's control "
                    "(such as object addresses), so the replay file holds the un-minimised run" % (idx, "re-executes identically only un-minimised" if stable0 else "does not recur on every re-execution"))
            stable = stable0
        kf = kernel.match_known(known, prop, clause, f1["signature"])
        path = write_replay(world, prop, chosen, f1, tier, verif_seed, scratch, {"fork": n_fork, "of": 2, "fresh_interpreter": 0, "note": note})
        ok, out = replay_in_fresh_interpreter(prop, path) if stable else (False, "")
        if not ok and note is None:
            note = "reproduces in forks of the check's template process but not in a freshly spawned interpreter"
        with open(path) as fh:
            doc = json.load(fh)
        doc["reproduced"]["fresh_interpreter"] = int(bool(ok))
        doc["reproduced"]["note"] = note
        with open(path, "w") as fh:
            json.dump(doc, fh, indent=1, sort_keys=True)
            fh.write("\n")
        if note:
            print("NOTE %s %s: %s" % (prop, clause, note))
        entry = {"clause": clause, "signature": f1["signature"], "runs_failing": len(set(i_ for i_, _ in members)), "replay": path, "minimised": chosen.get("minimised"), "reproduced": doc["reproduced"]}
        dup = next((e for e in violations + known_hits if e["clause"] == clause and e["signature"] == f1["signature"]), None)
        if dup is not None:
            # same clause and same minimised signature as a group already reported
            dup["runs_failing"] += len(set(i_ for i_, _ in members))
            if path != dup.get("replay") and os.path.exists(path):
                os.remove(path)
        elif kf is not None:
            known_hits.append(dict(entry, what=kf.get("what")))
            os.remove(path)  # known findings keep their committed description, not a fresh replay each run
        else:
            violations.append(entry)
            replays.append(path)
    skipped_groups = max(0, len(groups) - max_groups)

    # ---- determinism sample
    n_det = int(os.environ.get("VERIF_DET_SEEDS", "0")) or (16 if tier == "quick" else 256)
    det = determinism_selftest(world, prop, tier, verif_seed, specs, pooled, n_det)
    if det["mismatches"]:
        print("HARNESS-ERROR nondeterministic runs: %s" % json.dumps(det["mismatches"][:3]))
        return 2

    wall = time.monotonic() - t0
    n = len(pooled)
    samples = []
    for s in specs[:2] + specs[-1:]:
        c = world.gen_case(s)
        samples.append({"index": s["index"], "run_seed": s["seed"], "mode": s.get("mode"), "ops": c["ops"][:25], "n_ops": len(c["ops"]), "faults": c.get("faults", [])[:10], "catalogue_summary": world.catalogue_summary(c) if hasattr(world, "catalogue_summary") else None})
    reach_lost = [k for k in getattr(world, "EXPECTED_PROBES", {}).get(prop, []) if probes.get(k, 0) == 0]
    reach_lost += [k for k in getattr(world, "EXPECTED_STATS", {}).get(prop, []) if stats.get(k, 0) == 0]
    for k in reach_lost:
        print("REACH-LOST seam=%s" % k)
    coverage = {
        "evaluations": n,
        "distinct_nontrivial": len(nontrivial_digests),
        "rule": rule,
        "samples": samples,
        "exhaustive": False,
        "simulated_runs": n,
        "runs_per_hour": int(n / runs_wall * 3600) if runs_wall > 0 else None,
        "distinct_seeds": len(set(s["seed"] for s in specs)),
        "distinct_run_digests": len(digests),
        "logical_steps": steps,
        "simulated_time": "the system has no clock, timer or deadline; time is counted in logical steps (operations executed)",
        "distinct_abstract_states": len(states),
        "abstract_state_measure": getattr(world, "STATE_MEASURE", None),
        "distinct_client_interleavings": len(schedules),
        "client_interleaving_measure": "distinct sequences of client ids in execution order (which client performed each step), decided by the seeded scheduler",
        "stats": dict(stats),
        "reach_probes": dict(probes),
        "reach_lost": reach_lost,
        "determinism_selftest": det,
        "components": COMPONENTS,
        "prepare_s": round(prep_s, 2),
        "known_finding_hits": known_hits,
        "violations_found": violations,
        "unminimised_failure_groups": skipped_groups,
        "failures_of_other_properties_seen": dict(other_prop),
        "build": dict(build.repo_head(), sha256_of_sources=build.source_digest(scratch)),
        "scale": scale,
        "partial_run": scale != 1.0,
        "overrides": {k: os.environ[k] for k in ("VERIF_SCALE", "VERIF_DET_SEEDS", "VERIF_MAX_MINIMISE", "VERIF_WALL_CAP", "VERIF_WORKERS", "VERIF_REPO", "VERIF_RUN_CAP") if os.environ.get(k) and not (k == "VERIF_SCALE" and scale == 1.0)},
    }
    if hasattr(world, "coverage_extra"):
        coverage.update(world.coverage_extra(prop, stats, probes))
    if hasattr(world, "post_checks"):
        coverage.update(world.post_checks(tier, verif_seed))
    wall = time.monotonic() - t0
    kernel.write_evidence(prop, tier, verif_seed, level, coverage, wall, len(violations), assumptions)
    for kh in known_hits:
        print("KNOWN-FINDING: property=%s %s [%s %s]" % (prop, kh.get("what"), kh["clause"], kh["signature"]))
    for v in violations:
        print("VIOLATION property=%s replay=%s" % (prop, v["replay"]))
        print("  clause=%s signature=%s failing_runs=%d minimised=%s" % (v["clause"], v["signature"], v["runs_failing"], v["minimised"]))
    if scale != 1.0:
        print("NOTE partial run: --scale %s (development aid); the registered commands run at scale 1" % scale)
    print("%s %s: %d runs, %d steps, %d distinct digests, %d non-trivial, %d violation group(s), %d known, %.1fs" % (prop, tier, n, steps, len(digests), len(nontrivial_digests), len(violations), len(known_hits), wall))
    return 1 if violations else 0
