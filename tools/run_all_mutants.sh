#!/bin/bash
# usage: tools/run_all_mutants.sh [seeded|mutants|all] [glob]   -> one line per mutant: name prop exit
cd "$(dirname "$0")/.."
which=${1:-all}; glob=${2:-*}
if [ "$which" != mutants ]; then
for d in seeded/$glob/; do
  [ -f "$d/patch.diff" ] || continue
  id=$(basename $d); prop=${id%%-*}
  /venv/bin/python tools/run_mutant.py $d/patch.diff $prop 2>&1 | sed "s|^|[$id] |"
done
fi
if [ "$which" != seeded ]; then
for p in mutants/$glob.patch; do
  [ -f "$p" ] || continue
  name=$(basename $p .patch); prop=$(echo ${name%%_*} | tr a-z A-Z)
  /venv/bin/python tools/run_mutant.py $p $prop 2>&1 | sed "s|^|[$name] |"
done
fi
