#!/bin/bash
# usage: tools/run_all_mutants.sh [seeded|mutants|all]   -> one line per mutant: name prop exit
cd "$(dirname "$0")/.."
which=${1:-all}
if [ "$which" != mutants ]; then
for d in seeded/*/; do
  id=$(basename $d); prop=${id%%-*}
  /venv/bin/python tools/run_mutant.py $d/patch.diff $prop 2>&1 | sed "s|^|[$id] |"
done
fi
if [ "$which" != seeded ]; then
for p in mutants/*.patch; do
  name=$(basename $p .patch); prop=$(echo ${name%%_*} | tr a-z A-Z)
  /venv/bin/python tools/run_mutant.py $p $prop 2>&1 | sed "s|^|[$name] |"
done
fi
