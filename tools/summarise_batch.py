#!/usr/bin/env python3
"""Parse a tools/run_all_mutants.sh log: update seeded/*/meta.json (detected_by),
mutants/index.json, and print the markdown table for DESIGN.md section 11."""
import json, os, re, sys
HERE = os.path.dirname(os.path.dirname(os.path.abspath(__file__)))

def parse(path):
    res = {}
    cur = None
    for line in open(path, errors="replace"):
        m = re.match(r"\[([^\]]+)\] (\S+) (C\d+) exit=(\d+)", line)
        if m:
            cur = (m.group(1), m.group(3))
            res[cur] = {"exit": int(m.group(4)), "clauses": [], "notes": []}
            continue
        m = re.match(r"\[([^\]]+)\]\s+clause=(\S+) signature=(\S+)", line)
        if m and cur:
            res[cur]["clauses"].append(m.group(2))
        if cur and ("HARNESS" in line or "NOTE" in line):
            res[cur]["notes"].append(line.strip()[:200])
    return res

def main(paths):
    res = {}
    for p in paths:
        res.update(parse(p))
    idx_path = os.path.join(HERE, "mutants", "index.json")
    idx = json.load(open(idx_path))
    rows = []
    for (name, prop), r in sorted(res.items()):
        det = r["exit"] == 1
        clauses = sorted(set(r["clauses"]))
        sd = os.path.join(HERE, "seeded", name, "meta.json")
        if os.path.exists(sd):
            meta = json.load(open(sd))
            db = meta.get("detected_by") or {}
            db[prop] = {"detected": det, "clauses": clauses, "command": "./check %s --tier quick (VERIF_SEED=0) on a scratch copy of /repo with patch.diff applied" % prop}
            meta["detected_by"] = db
            json.dump(meta, open(sd, "w"), indent=1)
            what = " ".join(meta.get("needs_to_manifest", [])[:2])[:110]
            kind = "seeded (sub-agent)"
        else:
            e = idx.setdefault(name, {})
            db = e.get("detected_by") or {}
            db[prop] = {"detected": det, "clauses": clauses}
            e["detected_by"] = db
            what = e.get("what", "")
            kind = "hand-written"
        rows.append((name, kind, prop, "yes" if det else ("HARNESS-ERROR" if r["exit"] == 2 else "**no**"), ", ".join(c.split(".", 1)[1] for c in clauses) or "-", what))
    json.dump(idx, open(idx_path, "w"), indent=1, sort_keys=True)
    print("| change | origin | check | detected | failing clauses | what it is |")
    print("|---|---|---|---|---|---|")
    for r in rows:
        print("| %s | %s | %s | %s | %s | %s |" % tuple(str(x).replace("|", "/").replace("\n", " ") for x in r))
    n = len(rows); d = sum(1 for r in rows if r[3] == "yes")
    print("\n%d of %d changes detected by the quick check of the targeted property." % (d, n))

if __name__ == "__main__":
    main(sys.argv[1:])
