#!/venv/bin/python
# coding: utf-8
"""Run checks against a patched scratch copy of /repo (the repo itself is not touched).

usage: tools/run_mutant.py PATCH PROP [PROP ...]   (env: VERIF_SCALE, VERIF_TIER)
prints one line per property: <patch> <prop> exit=<n> <VIOLATION lines / summary>
"""
import os
import shutil
import subprocess
import sys
import tempfile

HERE = os.path.dirname(os.path.dirname(os.path.abspath(__file__)))


def run(patch, props, keep_out=False):
    tmp = tempfile.mkdtemp(prefix="mutrun-", dir="/tmp")
    results = {}
    try:
        repo = os.path.join(tmp, "repo")
        os.makedirs(repo)
        for name in os.listdir("/repo"):
            if name == "moclo" or name.startswith("moclo-"):
                shutil.copytree(os.path.join("/repo", name), os.path.join(repo, name), ignore=shutil.ignore_patterns("__pycache__", "*.tar.gz", "build", "*.egg-info"))
        p = subprocess.run(["patch", "-p1", "-s", "-i", os.path.abspath(patch)], cwd=repo, stdout=subprocess.PIPE, stderr=subprocess.STDOUT)
        if p.returncode != 0:
            raise SystemExit("patch failed: " + p.stdout.decode())
        env = dict(os.environ, VERIF_REPO=repo, VERIF_EVIDENCE_DIR=os.path.join(tmp, "evidence"), VERIF_REPLAY_DIR=os.path.join(tmp, "replays"))
        env.setdefault("VERIF_DET_SEEDS", "4")
        for prop in props:
            r = subprocess.run([os.path.join(HERE, "check"), prop, "--tier", os.environ.get("VERIF_TIER", "quick")], cwd=HERE, env=env, stdout=subprocess.PIPE, stderr=subprocess.STDOUT, timeout=3600)
            out = r.stdout.decode("utf8", "replace")
            lines = [l for l in out.splitlines() if l.startswith(("VIOLATION", "  clause", "HARNESS", "KNOWN", "REACH")) or " quick:" in l or " thorough:" in l]
            results[prop] = (r.returncode, lines, out)
    finally:
        shutil.rmtree(tmp, ignore_errors=True)
    return results


if __name__ == "__main__":
    patch, props = sys.argv[1], sys.argv[2:]
    for prop, (code, lines, out) in run(patch, props).items():
        print("%s %s exit=%d" % (os.path.basename(os.path.dirname(patch)) + "/" + os.path.basename(patch), prop, code))
        for l in lines[:8]:
            print("    " + l)
        if code == 2:
            print(out[-1500:])
