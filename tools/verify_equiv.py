#!/venv/bin/python
"""Confirm a behaviour-preserving re-implementation written by a sub-agent (suite passes and its own
demo passes with the patch applied) and import it into /verif/seeded_equiv/<id>/."""
import json, os, shutil, subprocess, sys
def sh(cmd, cwd, timeout=1200):
    r = subprocess.run(cmd, cwd=cwd, stdout=subprocess.PIPE, stderr=subprocess.STDOUT, timeout=timeout)
    return r.returncode, r.stdout.decode("utf8", "replace")
wt = sys.argv[1].rstrip("/")
prop = os.path.basename(wt).split("-")[1]
for n in sorted(os.listdir(os.path.join(wt, "_out"))):
    d = os.path.join(wt, "_out", n)
    if not os.path.exists(os.path.join(d, "patch.diff")):
        continue
    sh(["git", "checkout", "--", "."], wt); sh(["git", "clean", "-fdq", "-e", "_out"], wt)
    ca, oa = sh(["git", "apply", os.path.join("_out", n, "patch.diff")], wt)
    ct, ot = sh(["/venv/bin/python", "-m", "pytest", "-q", "-p", "no:cacheprovider", "tests"], wt)
    c1, o1 = sh(["/venv/bin/python", os.path.join("_out", n, "demo.py")], wt)
    sh(["git", "checkout", "--", "."], wt); sh(["git", "clean", "-fdq", "-e", "_out"], wt)
    tail = ot.strip().splitlines()[-1] if ot.strip() else ""
    ok = ca == 0 and ct == 0 and c1 == 0
    print("%s-eq%s apply=%d suite=%d (%s) demo=%d => %s" % (prop, n, ca, ct, tail, c1, "CONFIRMED" if ok else "REJECTED"))
    if ok:
        dst = "/verif/seeded_equiv/%s-%s%s" % (prop, os.path.basename(wt).split("-")[2], n)
        os.makedirs(dst, exist_ok=True)
        for f in ("patch.diff", "demo.py", "notes.md"):
            if os.path.exists(os.path.join(d, f)):
                open(os.path.join(dst, f), "w").write(open(os.path.join(d, f)).read().replace(wt, "/tmp/moclo-wt"))
        json.dump({"id": "%s-%s%s" % (prop, os.path.basename(wt).split("-")[2], n), "property": prop, "kind": "behaviour-preserving re-implementation (the property still holds): checks must stay green",
                   "source": "independent sub-agent given only the property text", "confirmed": {"suite_with_patch": tail, "agent_demo_with_patch_exit": c1}, "check_result": None}, open(os.path.join(dst, "meta.json"), "w"), indent=1)
