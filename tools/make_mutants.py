#!/venv/bin/python
# coding: utf-8
"""Builds /verif/mutants/*.patch — the hand-written sensitivity set (DESIGN.md
Appendix C).  Each mutant is a string replacement applied to a scratch copy of
/repo; it is kept only if the pinned test suite still passes with it.

usage: tools/make_mutants.py [name ...]
"""
import json
import os
import shutil
import subprocess
import sys
import tempfile

REPO = "/repo"
OUT = "/verif/mutants"

STRUCT = "moclo/moclo/core/_structured.py"
ASM = "moclo/moclo/core/_assembly.py"
REC = "moclo/moclo/record.py"
UTL = "moclo/moclo/core/_utils.py"
PARTS = "moclo/moclo/core/parts.py"
BASE = "moclo/moclo/registry/base.py"
RUT = "moclo/moclo/registry/_utils.py"

M = []


def mutant(name, prop, what, edits):
    M.append({"name": name, "property": prop, "what": what, "edits": edits})


# ---- C06
mutant("c06_mro_cache", "C06", "pre-fix behaviour: compiled pattern looked up through the MRO", [
    (STRUCT, 'if cls.__dict__.get("_regex") is None:', "if cls._regex is None:")])
mutant("c06_cache_by_name", "C06", "pattern cache in a module dict keyed by the class __name__", [
    (STRUCT, '''        if cls.__dict__.get("_regex") is None:
            cls._regex = DNARegex(cls.structure())
        return cls._regex
''', '''        regex = _REGEX_CACHE.get(cls.__name__)
        if regex is None:
            regex = _REGEX_CACHE[cls.__name__] = DNARegex(cls.structure())
        return regex
'''),
    (STRUCT, "@six.add_metaclass(abc.ABCMeta)", "_REGEX_CACHE = {}\n\n\n@six.add_metaclass(abc.ABCMeta)")])
mutant("c06_match_memo_on_class", "C06", "match memoised per (class, record id) 'for speed'", [
    (STRUCT, '''        topology = self.record.annotations.get("topology", "circular").lower()
        match = self._get_regex().search(self.record, linear=topology != "circular")
''', '''        topology = self.record.annotations.get("topology", "circular").lower()
        memo = type(self).__dict__.get("_memo")
        if memo is None:
            memo = {}
            setattr(type(self), "_memo", memo)
        key = (self.record.id, len(self.record))
        if key not in memo:
            memo[key] = self._get_regex().search(self.record, linear=topology != "circular")
        match = memo[key]
''')])
mutant("c06_characterize_memo", "C06", "characterize memoised by record id", [
    (PARTS, '''        classes = list(cls.__subclasses__())
        if not isabstract(cls):
            classes.append(cls)
        for subclass in classes:
            entity = subclass(record)
            if entity.is_valid():
                return entity
''', '''        known = _CHARACTERIZED.get(record.id)
        if known is not None and issubclass(known, cls):
            return known(record)
        classes = list(cls.__subclasses__())
        if not isabstract(cls):
            classes.append(cls)
        for subclass in classes:
            entity = subclass(record)
            if entity.is_valid():
                _CHARACTERIZED[record.id] = subclass
                return entity
'''),
    (PARTS, '__all__ = ["AbstractPart"]', '__all__ = ["AbstractPart"]\n\n_CHARACTERIZED = {}')])
mutant("c06_last_regex_global", "C06", "module-level 'last compiled pattern' reused when the structure string has the same length", [
    (STRUCT, '''        if cls.__dict__.get("_regex") is None:
            cls._regex = DNARegex(cls.structure())
        return cls._regex
''', '''        if cls.__dict__.get("_regex") is None:
            structure = cls.structure()
            last = _LAST.get(len(structure))
            if last is None or last.pattern.count("N") != structure.count("N"):
                last = _LAST[len(structure)] = DNARegex(structure)
            cls._regex = last
        return cls._regex
'''),
    (STRUCT, "@six.add_metaclass(abc.ABCMeta)", "_LAST = {}\n\n\n@six.add_metaclass(abc.ABCMeta)")])

# ---- C07
mutant("c07_no_finally", "C07", "pre-fix behaviour: inputs restored only on the success path", [
    (ASM, '''        try:
            for record in records:
                self._deref_citations(record)
            assembly = self._generate_assembly(modmap)
            self._annotate_assembly(assembly)
            self._ref_citations(assembly)
        finally:
            for current, original in citations:
                current[:] = original
''', '''        for record in records:
            self._deref_citations(record)
        assembly = self._generate_assembly(modmap)
        self._annotate_assembly(assembly)
        self._ref_citations(assembly)
        for current, original in citations:
            current[:] = original
''')])
mutant("c07_restore_modules_only", "C07", "citations of the vector are not saved/restored", [
    (ASM, '''            for record in records
            for feature in record.features
            if "citation" in feature.qualifiers
''', '''            for record in records
            if record is not self.vector.record
            for feature in record.features
            if "citation" in feature.qualifiers
''')])
mutant("c07_except_exception_before_loop", "C07", "restore only when MissingModule/AssemblyError is raised, not for other exceptions", [
    (ASM, '''        finally:
            for current, original in citations:
                current[:] = original

        return assembly
''', '''        except errors.AssemblyError:
            for current, original in citations:
                current[:] = original
            raise
        for current, original in citations:
            current[:] = original

        return assembly
''')])
mutant("c07_slice_shares_features", "C07", "CircularRecord.__getitem__ without deepcopy of the features", [
    (REC, "                copy.deepcopy(rec.features),\n                annotations,", "                rec.features,\n                annotations,")])
mutant("c07_add_as_source_to_src", "C07", "add_as_source appends the provenance feature to the source record", [
    (UTL, "    dst_record.features.append(feat)", "    src_record.features.append(feat)")])
mutant("c07_annotate_aliases_vector", "C07", "_annotate_assembly starts from the vector's annotation dict (aliased)", [
    (ASM, "        ants = assembly.annotations\n", "        ants = assembly.annotations = self.vector.record.annotations\n")])
mutant("c07_rotation_relocates_in_place", "C07", "rotation reuses (and relocates) the original feature objects", [
    (REC, '''            newfeats.append(
                SeqFeature(
                    location=newloc,
                    type=feature.type,
                    id=feature.id,
                    qualifiers=feature.qualifiers,
                )
            )
''', '''            feature.location = newloc
            newfeats.append(feature)
''')])
mutant("c07_dedupe_by_equality", "C07", "distinct input records found with == on ids instead of identity", [
    (ASM, "            if not any(elem.record is record for record in records):", "            if not any(elem.record.id == record.id for record in records):")])

# ---- C10
mutant("c10_list_find", "C10", "pre-fix behaviour: list.find", [
    (ASM, "references.index(ref) + 1", "references.find(ref) + 1")])
mutant("c10_no_brackets", "C10", "bare index instead of [n]", [
    (ASM, '"[{}]".format(ref_index)', '"{}".format(ref_index)')])
mutant("c10_off_by_one", "C10", "0-based index written", [
    (ASM, "references.index(ref) + 1", "references.index(ref)")])
mutant("c10_always_append", "C10", "reference appended without the membership test", [
    (ASM, '''                if ref not in references:
                    references.append(ref)
''', '''                references.append(ref)
''')])
mutant("c10_vector_reference_list", "C10", "citations dereferenced against the vector's reference list", [
    (ASM, '        references = record.annotations.get("references", [])\n        for feature in record.features:\n            for i, ref in enumerate(feature.qualifiers.get("citation", [])):\n                match',
     '        references = self.vector.record.annotations.get("references", []) or record.annotations.get("references", [])\n        for feature in record.features:\n            for i, ref in enumerate(feature.qualifiers.get("citation", [])):\n                match')])
mutant("c10_identity_membership", "C10", "references merged by identity instead of equality", [
    (ASM, '''                if ref not in references:
                    references.append(ref)
                ref_index = references.index(ref) + 1
''', '''                if not any(ref is r for r in references):
                    references.append(ref)
                ref_index = next(i for i, r in enumerate(references) if r is ref) + 1
''')])
mutant("c10_product_keeps_reference_objects", "C10", "product citations left dereferenced when it has no reference yet", [
    (ASM, '''        references = record.annotations.setdefault("references", [])
        for feature in record.features:
            for i, ref in enumerate(feature.qualifiers.get("citation", [])):
                if ref not in references:''', '''        references = record.annotations.setdefault("references", [])
        for feature in record.features:
            if feature.type == "source":
                continue
            for i, ref in enumerate(feature.qualifiers.get("citation", [])[:2]):
                if ref not in references:''')])

# ---- C20
mutant("c20_last_wins", "C20", "CombinedRegistry.add_registry overwrites (last member wins)", [
    (BASE, "            self._data.setdefault(item.id, item)", "            self._data[item.id] = item")])
mutant("c20_add_by_member_keys", "C20", "add_registry keyed by the member's keys and skipping when ANY key exists", [
    (BASE, '''        for item in six.itervalues(registry):
            self._data.setdefault(item.id, item)
''', '''        for key in registry:
            if key in self._data:
                break
            self._data[key] = registry[key]
''')])
mutant("c20_len_minus_dirs", "C20", "EmbeddedRegistry.__len__ counts members whose name has no dot", [
    (BASE, "                return len(tar.getmembers())", '                return len([m for m in tar.getmembers() if "." not in m.name and "(" not in m.name])')])
mutant("c20_iter_no_exclude_dirs", "C20", "FilesystemRegistry.__iter__ without exclude_dirs", [
    (BASE, '''        for f in self.fs.filterdir("/", files=self._files, exclude_dirs=["*"]):
            name, _ = splitext(f.name)
            yield name''', '''        for f in self.fs.filterdir("/", files=self._files):
            name, _ = splitext(f.name)
            yield name''')])
mutant("c20_no_id_reset", "C20", "FilesystemRegistry.__getitem__ keeps the GenBank id", [
    (BASE, "                    record.id = name\n", "                    record.name = name\n")])
mutant("c20_absent_returns_none", "C20", "absent keys of a CombinedRegistry answer None", [
    (BASE, '''    def __getitem__(self, item):
        return self._data[item]

    def __contains__(self, item):
        return item in self._data
''', '''    def __getitem__(self, item):
        return self._data.get(item)

    def __contains__(self, item):
        return item in self._data
''')])
mutant("c20_resistance_last", "C20", "find_resistance scans the features from the end", [
    (RUT, "    for feature in record.features:", "    for feature in reversed(record.features):")])
mutant("c20_partial_cache", "C20", "embedded data filled incrementally into a dict that survives an I/O error", [
    (BASE, '''    @cached_property
    def _data(self):
        data = {}
        with pkg_resources''', '''    @property
    def _data(self):
        cache = _EMBEDDED_CACHE.get(self._file)
        if cache is None:
            cache = _EMBEDDED_CACHE[self._file] = {}
            self._load(cache)
        return cache

    def _load(self, data):
        with pkg_resources'''),
    (BASE, "class EmbeddedRegistry(AbstractRegistry):", "_EMBEDDED_CACHE = {}\n\n\nclass EmbeddedRegistry(AbstractRegistry):")])
mutant("c20_ext_prefix_match", "C20", "files matched by extension prefix (*.gb*)", [
    (BASE, '        return ["*.{}".format(extension) for extension in self._extensions]', '        return ["*.{}*".format(extension) for extension in self._extensions]')])
mutant("c20_lookup_first_listing", "C20", "directory lookups served from a listing cached incrementally at first use (kept half-filled after an I/O error)", [
    (BASE, '''        for f in self.fs.filterdir("/", files=self._files, exclude_dirs=["*"]):
            name, _ = splitext(f.name)
            if name == item:''', '''        if not hasattr(self, "_listing"):
            self._listing = []
            for f in self.fs.filterdir("/", files=self._files, exclude_dirs=["*"]):
                self._listing.append(f)
        for f in self._listing:
            name, _ = splitext(f.name)
            if name == item:''')])
mutant("c20_builder_keeps_suffix", "C20", "the YTK archive builder stores members under their file name (with .gb)", [
    ("moclo-ytk/setup.py", "                arcname, _ = os.path.splitext(os.path.basename(gb_file))", "                arcname = os.path.basename(gb_file)")])
mutant("c20_builder_dedup_by_prefix", "C20", "the CIDAR archive builder skips sources whose name contains a parenthesis (\"duplicates\")", [
    ("moclo-cidar/setup.py", "            for gb_file in sorted(ext.sources):", "            for gb_file in sorted(s for s in ext.sources if \"(\" not in s):")])


def main(argv):
    os.makedirs(OUT, exist_ok=True)
    index_path = os.path.join(OUT, "index.json")
    index = json.load(open(index_path)) if os.path.exists(index_path) else {}
    for m in M:
        if argv and m["name"] not in argv:
            continue
        tmp = tempfile.mkdtemp(prefix="mut-", dir="/tmp")
        try:
            wt = os.path.join(tmp, "wt")
            subprocess.run(["git", "-C", REPO, "worktree", "add", "--detach", "-q", wt, "HEAD"], check=True)
            ok = True
            for path, old, new in m["edits"]:
                p = os.path.join(wt, path)
                s = open(p).read()
                if s.count(old) != 1:
                    print("!! %s: anchor not found exactly once in %s (%d)" % (m["name"], path, s.count(old)))
                    ok = False
                    break
                open(p, "w").write(s.replace(old, new))
            if ok:
                diff = subprocess.run(["git", "-C", wt, "diff"], stdout=subprocess.PIPE, check=True).stdout
                t = subprocess.run(["/venv/bin/python", "-m", "pytest", "-q", "-x", "-p", "no:cacheprovider", "tests"], cwd=wt, stdout=subprocess.PIPE, stderr=subprocess.STDOUT)
                tail = t.stdout.decode().strip().splitlines()[-1]
                passes = t.returncode == 0
                print("%-40s tests: %s  (%s)" % (m["name"], "PASS" if passes else "FAIL", tail))
                if passes:
                    open(os.path.join(OUT, m["name"] + ".patch"), "wb").write(diff)
                    index[m["name"]] = {"property": m["property"], "what": m["what"], "suite": tail}
                else:
                    index.pop(m["name"], None)
                    if os.path.exists(os.path.join(OUT, m["name"] + ".patch")):
                        os.remove(os.path.join(OUT, m["name"] + ".patch"))
        finally:
            subprocess.run(["git", "-C", REPO, "worktree", "remove", "--force", os.path.join(tmp, "wt")], stdout=subprocess.DEVNULL, stderr=subprocess.DEVNULL)
            shutil.rmtree(tmp, ignore_errors=True)
    json.dump(index, open(index_path, "w"), indent=1, sort_keys=True)


if __name__ == "__main__":
    main(sys.argv[1:])
