#!/bin/bash
# runs the thorough tier of every claimed check (evidence/replays redirected), one line per property
cd "$(dirname "$0")/.."
out=$(mktemp -d /tmp/thorough-XXXXXX)
for p in ${@:-C06 C07 C10 C20}; do
  /usr/bin/time -f "$p wall %es" env VERIF_EVIDENCE_DIR=$out/ev VERIF_REPLAY_DIR=$out/replays ./check $p --tier thorough > $out/$p.log 2>&1
  echo "$p exit=$? $(tail -2 $out/$p.log | tr '\n' ' ')"
  grep -E "VIOLATION|HARNESS|REACH-LOST|clause=" $out/$p.log | head -5
done
cp -r $out/ev thorough-evidence 2>/dev/null
ls $out/replays 2>/dev/null | head
