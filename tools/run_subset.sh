#!/bin/bash
# re-run the C07/C10/C20 part of the mutant batch (after a change that does not touch the typing world)
cd "$(dirname "$0")/.."
for g in 'C07*' 'C10*' 'C20*'; do tools/run_all_mutants.sh seeded "$g"; done
for g in 'c07*' 'c10*' 'c20*'; do tools/run_all_mutants.sh mutants "$g"; done
