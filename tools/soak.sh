#!/bin/bash
# usage: tools/soak.sh FIRST LAST [tier]  -- runs every claimed check under VERIF_SEED=FIRST..LAST on the
# unchanged tree; evidence/replays go to a scratch dir; prints one line per (seed, property).
cd "$(dirname "$0")/.."
tier=${3:-quick}
out=$(mktemp -d /tmp/soak-XXXXXX)
for seed in $(seq $1 $2); do
  for p in C06 C07 C10 C20; do
    VERIF_SEED=$seed VERIF_EVIDENCE_DIR=$out/ev VERIF_REPLAY_DIR=$out/replays ./check $p --tier $tier > $out/$p-$seed.log 2>&1
    code=$?
    echo "seed=$seed $p exit=$code $(tail -1 $out/$p-$seed.log)"
    if [ $code -ne 0 ]; then grep -E "VIOLATION|HARNESS|clause=" $out/$p-$seed.log | head -5; fi
  done
done
ls $out/replays 2>/dev/null | head
