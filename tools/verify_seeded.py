#!/venv/bin/python
# coding: utf-8
"""Confirm a sub-agent's mutant in its scratch worktree and import it into /verif/seeded.

usage: tools/verify_seeded.py /tmp/wt-C20-a [n ...]
For each _out/<n>: demo on clean tree must exit 0; with the patch applied the pinned
suite must pass and the demo must exit non-zero; the tree is reverted afterwards.
"""
import json, os, shutil, subprocess, sys

def sh(cmd, cwd, timeout=900):
    r = subprocess.run(cmd, cwd=cwd, stdout=subprocess.PIPE, stderr=subprocess.STDOUT, timeout=timeout)
    return r.returncode, r.stdout.decode("utf8", "replace")

def main(wt, only):
    tag = os.path.basename(wt).replace("wt-", "")          # C20-a
    prop = tag.split("-")[0]
    out = os.path.join(wt, "_out")
    for n in sorted(os.listdir(out)):
        d = os.path.join(out, n)
        if not os.path.isdir(d) or not os.path.exists(os.path.join(d, "patch.diff")) or (only and n not in only):
            continue
        sh(["git", "checkout", "--", "."], wt); sh(["git", "clean", "-fdq", "-e", "_out"], wt)
        c0, o0 = sh(["/venv/bin/python", os.path.join("_out", n, "demo.py")], wt)
        ca, oa = sh(["git", "apply", os.path.join("_out", n, "patch.diff")], wt)
        ct, ot = sh(["/venv/bin/python", "-m", "pytest", "-q", "-p", "no:cacheprovider", "tests"], wt)
        c1, o1 = sh(["/venv/bin/python", os.path.join("_out", n, "demo.py")], wt)
        sh(["git", "checkout", "--", "."], wt); sh(["git", "clean", "-fdq", "-e", "_out"], wt)
        tail = ot.strip().splitlines()[-1] if ot.strip() else ""
        ok = c0 == 0 and ca == 0 and ct == 0 and c1 != 0
        print("%s/%s demo_clean=%d apply=%d suite=%d (%s) demo_patched=%d => %s" % (tag, n, c0, ca, ct, tail, c1, "CONFIRMED" if ok else "REJECTED"))
        if not ok:
            print((o0 if c0 else "")[-500:], (oa if ca else "")[-500:], (ot if ct else "")[-800:])
            continue
        sid = "%s-%s%s" % (prop, tag.split("-")[1], n)
        dst = os.path.join("/verif/seeded", sid)
        os.makedirs(dst, exist_ok=True)
        shutil.copy(os.path.join(d, "patch.diff"), os.path.join(dst, "patch.diff"))
        demo = open(os.path.join(d, "demo.py")).read().replace(wt, "/tmp/moclo-wt")
        open(os.path.join(dst, "demo.py"), "w").write(demo)
        notes = open(os.path.join(d, "notes.md")).read().replace(wt, "/tmp/moclo-wt") if os.path.exists(os.path.join(d, "notes.md")) else ""
        open(os.path.join(dst, "notes.md"), "w").write(notes)
        meta = {"id": sid, "property": prop, "source": "independent sub-agent given only the property text and a scratch worktree",
                "needs_to_manifest": notes.strip().splitlines()[:12],
                "confirmed": {"demo_on_clean_tree_exit": c0, "suite_with_patch": tail, "demo_with_patch_exit": c1,
                              "how": "git worktree of /repo HEAD 989fb27 at %s; demo.py; git apply patch.diff; pytest tests; demo.py; git checkout -- ." % wt},
                "demo_usage": "git -C /repo worktree add --detach /tmp/moclo-wt HEAD && cd /tmp/moclo-wt && /venv/bin/python /verif/seeded/%s/demo.py   (exit 0 clean, non-zero after git apply /verif/seeded/%s/patch.diff)" % (sid, sid),
                "detected_by": None}
        json.dump(meta, open(os.path.join(dst, "meta.json"), "w"), indent=1)

if __name__ == "__main__":
    main(sys.argv[1].rstrip("/"), sys.argv[2:])
