#!/bin/bash
# Behaviour-preserving re-implementations must keep every check green (exit 0).
cd "$(dirname "$0")/.."
glob=${1:-*}
for d in seeded_equiv/$glob/; do
  id=$(basename $d); prop=${id%%-*}
  case $prop in C07|C10) props="C07 C10";; *) props=$prop;; esac
  /venv/bin/python tools/run_mutant.py $d/patch.diff $props 2>&1 | sed "s|^|[$id] |"
done
